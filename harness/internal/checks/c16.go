package checks

import (
	"encoding/json"
	"fmt"
	"os"
	"path/filepath"
	"regexp"
	"sort"
	"strings"

	"github.com/paulsonkoly/calc/types/node"

	"vharness/internal/core"
	"vharness/internal/gen"
	"vharness/internal/impl"
)

// C16: all three run modes execute the same program the same way.

// ---------------------------------------------------------------- (a) line accumulator

var c16Lines = []string{
	"a = 1",
	"f = () -> {",
	"  x = 2",
	"}",
	"if a == 1 {",
	"} else {",
	"v = [1,",
	"  2]",
	"write(\"{\")",
	"write(\"[\")",
	"write(\"}\")",
	"write(\";\")",
	"s = \"ab",
	"cd\"",
	"t = \"ab\\", // a string left open by a line that ends in the escape character
	"write(\"\\\"\")",
	"write(\"\\\\\")",
	"a = 2 ; has { brace",
	"; \" quote and [ bracket in a comment",
	"",
	"; a plain comment line",
	"b = \"" + strings.Repeat("x", 5000) + "\" ; a line longer than the reader's buffer",
}

type recParser struct{ inputs []string }

func (r *recParser) Parse(in string) ([]node.Type, node.ParserError) {
	r.inputs = append(r.inputs, in)
	return nil, nil
}

// delimState scans text with the specification tokenizer's rules: nesting of
// {} and [] outside strings and comments, and whether a string is left open.
func delimState(text string) (depth int, negative bool, openString bool) {
	i := 0
	stack := []byte{}
	for i < len(text) {
		c := text[i]
		switch c {
		case ';':
			for i < len(text) && text[i] != '\n' {
				i++
			}
		case '"':
			i++
			closed := false
			for i < len(text) {
				if text[i] == '\\' {
					i += 2
					continue
				}
				if text[i] == '"' {
					closed = true
					i++
					break
				}
				i++
			}
			if !closed {
				return depth, negative, true
			}
		case '{', '[':
			stack = append(stack, c)
			depth++
			i++
		case '}', ']':
			depth--
			// a closer without opener, or closing the other kind of bracket: not a well-formed script
			if depth < 0 || (c == '}') != (stack[len(stack)-1] == '{') {
				return depth, true, false
			}
			stack = stack[:len(stack)-1]
			i++
		default:
			i++
		}
	}
	return depth, negative, false
}

// modelSegments: consecutive lines are one input until nesting is closed and no string is open.
func modelSegments(lines []string) (segs []string, wellFormed bool) {
	cur := []string{}
	for _, l := range lines {
		cur = append(cur, l)
		text := strings.Join(cur, "\n")
		d, neg, open := delimState(text)
		if neg {
			return nil, false
		}
		if _, errAt, _ := lexSpec(text); errAt >= 0 && text[errAt] != '"' {
			return nil, false // a character outside the token language: not a well-formed script
		}
		if d == 0 && !open {
			segs = append(segs, text)
			cur = cur[:0]
		}
	}
	return segs, len(cur) == 0
}

func tokensNoEOL(text string) string {
	toks, errAt, _ := lexSpec(text)
	p := []string{}
	for _, t := range toks {
		if t.Kind == "EOL" || t.Kind == "EOF" {
			continue
		}
		p = append(p, t.Kind+":"+t.Text)
	}
	if errAt >= 0 {
		p = append(p, fmt.Sprintf("LEXERR@%d", errAt))
	}
	return strings.Join(p, " ")
}

var c16Scratch string

func c16ScratchDir() string {
	if c16Scratch == "" {
		base := "/dev/shm"
		if _, err := os.Stat(base); err != nil {
			base = ""
		}
		d, err := os.MkdirTemp(base, "vcheck-c16-")
		if err != nil {
			panic(err)
		}
		c16Scratch = d
	}
	return c16Scratch
}

// c16Accumulate feeds the lines to the real node.Loop and returns the inputs handed to the parser.
func c16Accumulate(lines []string, mode string) (inputs []string, pan string) {
	rp := &recParser{}
	s := c16Session()
	s.SetFuel(5000000)
	defer func() {
		if r := recover(); r != nil {
			pan = fmt.Sprint(r) + " @" + impl.PanicSite()
		}
	}()
	switch mode {
	case "repl":
		node.VerifLoop(node.NewVerifLineReader(lines), rp, s.VM, true)
	default:
		content := strings.Join(lines, "\n")
		if mode == "file" {
			content += "\n"
		}
		fn := filepath.Join(c16ScratchDir(), fmt.Sprintf("script-%d.calc", os.Getpid()))
		if err := os.WriteFile(fn, []byte(content), 0o644); err != nil {
			panic(err)
		}
		fr := node.NewFReader(fn)
		node.Loop(fr, rp, s.VM, false)
		fr.Close()
	}
	return rp.inputs, ""
}

var c16Sess *impl.Session

func c16Session() *impl.Session {
	if c16Sess == nil || c16Sess.Dead {
		c16Sess = impl.NewSession()
	}
	return c16Sess
}

func c16JudgeLines(seq []int, mode string) (sig, detail string, judged bool) {
	lines := make([]string, len(seq))
	for i, x := range seq {
		lines[i] = c16Lines[x]
	}
	if mode == "file-no-final-newline" && len(lines) > 0 && lines[len(lines)-1] == "" {
		return "", "", false // same file as the shorter sequence in plain file mode
	}
	want, ok := modelSegments(lines)
	if !ok {
		return "", "", false
	}
	got, pan := c16Accumulate(lines, mode)
	if pan != "" {
		return "loop-panic", fmt.Sprintf("%s mode, lines %q: %s", mode, lines, pan), true
	}
	// blank inputs carry no statement
	norm := func(xs []string) []string {
		r := []string{}
		for _, x := range xs {
			if t := tokensNoEOL(x); t != "" {
				r = append(r, t)
			}
		}
		return r
	}
	g, w := norm(got), norm(want)
	if strings.Join(g, "\n") != strings.Join(w, "\n") {
		return "segmentation:" + mode, fmt.Sprintf("%s mode, lines %q: the read-eval loop handed the parser %q, statement by statement it is %q", mode, lines, got, want), true
	}
	return "", "", true
}

// ---------------------------------------------------------------- (b) the three modes on the built binary

var c16Stmts = []string{
	"1 + 2",
	"\"ab\" + \"c\"",
	"[1, \"a\", 1.5]",
	"g = (x) -> x * 2",
	"g(4)",
	"{\n  h = (x) -> x + 1\n  h(2)\n}",
	"for i <- fromto(0, 3) write(i)",
	"{\n  k = 0\n  while k < 2 {\n    write(\"<\" + toa(k) + \">\")\n    k = k + 1\n  }\n}",
	"write(\"{\")",
	"write(\"[\")",
	"write(\"}\")",
	"write(\";\")",
	"write(\"\\\"\")",
	"write(\"\\\\\")",
	"write(\"a\\nb\")",
	"write(\"line one\nline two\")",
	"write(7) ; a comment with { and \" and [",
	"v = [1,\n  2,\n  3]",
	"#v",
	"1 / 0",
	"t = 5",
	"t + 1",
	"if t == 5 {\n  write(\"yes\")\n} else {\n  write(\"no\")\n}",
	"u",
	"if t == 5 1 else 2",
	"if t == 6 1 else 2",
	// two statements on one line (the parser takes them as two inputs of one chunk; all modes must still agree)
	"write(\"p\") write(\"q\")",
	"1 / 0 write(\"after-error\")",
	"return 7 write(\"after-return\")",
	"if #\"a\" == 1 1 else 2",
	"if #\"a\" == 2 1 else 2",
	"if #\"a\" == 1 3",
	"if t == 5 t + 1",
	"while t < 7 t = t + 1",
	"t",
	"for i <- fromto(0, 2) i",
	"[t, t + 1][1]",
	"#\"" + strings.Repeat("y", 5000) + "\" ; a statement longer than 4096 bytes",
	"w = \"first\n\n; second\nthird\"",
	"#w",
	"{\n  inc = (x) -> x + 1\n  1 / 0\n}",
	"scale = (x) -> x * 100",
	"inc(1)",
}

var reportLine = regexp.MustCompile(`^(    \d|--> \d|memory context |= stack =|IP: |=====|corrupt |No debug info)`)

func stripReports(out string) string {
	lines := strings.SplitAfter(out, "\n")
	var b strings.Builder
	in := false
	for _, l := range lines {
		if strings.Contains(l, "RUNTIME ERROR : ") {
			in = true
			b.WriteString(l)
			continue
		}
		if in && reportLine.MatchString(l) {
			continue
		}
		in = false
		b.WriteString(l)
	}
	return b.String()
}

// c16Expected computes, in process and statement by statement, what each mode must print.
func c16Expected(stmts []string) (eval, repl, file string, ok bool) {
	s := impl.NewSession()
	repl = "calc repl\n"
	for _, src := range stmts {
		pr := impl.ParseCached(src)
		if pr.Err != "" || pr.Panic != "" || pr.FuelOut != "" {
			return "", "", "", false
		}
		for _, t := range pr.Trees {
			r := s.RunTree(t, 1000000)
			if r.Panic != "" || r.FuelOut {
				return "", "", "", false
			}
			eval += r.Out
			repl += r.Out
			file += r.Out
			if r.Err != "" {
				rep := stripReports(r.Report)
				eval += rep
				repl += rep
				file += rep
				continue
			}
			eval += r.Val.String() + "\n"
			repl += "> " + r.Display + "\n"
		}
	}
	return eval, repl, file, true
}

func c16JudgeScript(bin string, idx []int) (sig, detail string, judged bool) {
	stmts := make([]string, len(idx))
	for i, x := range idx {
		stmts[i] = c16Stmts[x]
	}
	wantEval, wantRepl, wantFile, ok := c16Expected(stmts)
	if !ok {
		return "", "", false
	}
	script := strings.Join(stmts, "\n")
	run := func(mode string) (string, error) {
		switch mode {
		case "-eval":
			return runCalc(bin, "", "-eval", script)
		case "repl":
			return runCalc(bin, script+"\n")
		}
		content := script
		if mode == "file" {
			content += "\n"
		}
		fn := filepath.Join(c16ScratchDir(), fmt.Sprintf("prog-%d.calc", os.Getpid()))
		if err := os.WriteFile(fn, []byte(content), 0o644); err != nil {
			return "", err
		}
		return runCalc(bin, "", fn)
	}
	for _, m := range []struct{ mode, want string }{{"-eval", wantEval}, {"repl", wantRepl}, {"file", wantFile}, {"file-no-final-newline", wantFile}} {
		if m.mode == "-eval" && len(stmts) != 1 {
			continue // -eval takes one statement (which may span lines); scripts of several statements are for the REPL and file modes
		}
		out, err := run(m.mode)
		if err != nil {
			return binarySig(err, m.mode), fmt.Sprintf("script %q in %s mode: %v", script, m.mode, err), true
		}
		if strings.Contains(out, "panic:") || strings.Contains(out, "fatal error:") {
			return "binary-abort:" + m.mode, fmt.Sprintf("script %q in %s mode aborted: %s", script, m.mode, clipStr(out, 300)), true
		}
		got := stripReports(out)
		if got != m.want {
			return "mode-differs:" + m.mode, fmt.Sprintf("script %q: %s mode prints %q; executed statement by statement it is %q", script, m.mode, got, m.want), true
		}
	}
	return "", "", true
}

// ---------------------------------------------------------------- (c) inputs every mode must refuse the same way

// c16Special: statements that cannot be executed — one too large for the instruction format, and inputs that end
// inside an open array literal, block or string. Every mode must say so (the same first diagnostic line as -eval),
// none may abort, and statements before and after are executed as usual.
var c16Specials = map[string]string{
	"oversized":        "write(1" + strings.Repeat("+1", 39999) + ")",
	"open-array":       "v = [1,\n2",
	"open-block":       "f = () -> {\n1",
	"open-string":      "x = \"abc",
	"open-nested":      "f = () -> {\n  [1,\n  2]",
	"open-block-alone": "{",
}

func firstDiag(out string) string {
	for _, l := range strings.Split(out, "\n") {
		if strings.HasPrefix(l, "Parser:") || strings.HasPrefix(l, "Lexer:") || strings.HasPrefix(l, "Compile error:") {
			return l
		}
	}
	return ""
}

func c16JudgeSpecial(bin, name string) (sig, detail string) {
	src := c16Specials[name]
	evalOut, err := runCalc(bin, "", "-eval", src)
	if err != nil {
		return binarySig(err, "-eval"), fmt.Sprintf("%s input in -eval mode: %v", name, err)
	}
	aborted := func(out string) bool { return strings.Contains(out, "panic:") || strings.Contains(out, "fatal error:") }
	if aborted(evalOut) {
		return "binary-abort:-eval", fmt.Sprintf("%s input (%s) in -eval mode aborted: %s", name, clipStr(src, 60), clipStr(evalOut, 300))
	}
	want := firstDiag(evalOut)
	if want == "" {
		return "unexecutable-input-not-reported:-eval", fmt.Sprintf("%s input (%s) in -eval mode prints %q: no diagnostic", name, clipStr(src, 60), clipStr(evalOut, 200))
	}
	before, after := "write(\"before\\n\")", "write(\"after\\n\")"
	for _, mode := range []string{"file", "file-no-final-newline", "repl"} {
		script := before + "\n" + src
		if name == "oversized" {
			script += "\n" + after // an unfinished input swallows what follows; a refused statement does not
		}
		var out string
		switch mode {
		case "repl":
			out, err = runCalc(bin, script+"\n")
		default:
			content := script
			if mode == "file" {
				content += "\n"
			}
			fn := filepath.Join(c16ScratchDir(), fmt.Sprintf("special-%d.calc", os.Getpid()))
			if werr := os.WriteFile(fn, []byte(content), 0o644); werr != nil {
				return "harness:scratch-file", werr.Error()
			}
			out, err = runCalc(bin, "", fn)
		}
		if err != nil {
			return binarySig(err, mode), fmt.Sprintf("%s input in %s mode: %v", name, mode, err)
		}
		if aborted(out) {
			return "binary-abort:" + mode, fmt.Sprintf("%s input (%s) in %s mode aborted: %s", name, clipStr(src, 60), mode, clipStr(out, 300))
		}
		if !strings.Contains(out, "before\n") || (name == "oversized" && !strings.Contains(out, "after\n")) {
			return "mode-differs:" + mode, fmt.Sprintf("%s input (%s) in %s mode: the statements around it did not run: %q", name, clipStr(src, 60), mode, clipStr(out, 300))
		}
		if got := firstDiag(out); got != want {
			return "unexecutable-input-not-reported:" + mode, fmt.Sprintf("%s input (%s): -eval reports %q, %s mode reports %q (output %q)", name, clipStr(src, 60), want, mode, got, clipStr(out, 200))
		}
	}
	return "", ""
}

type c16Item struct {
	Kind string `json:"kind"` // lines | script | special
	Mode string `json:"mode,omitempty"`
	Seq  []int  `json:"seq,omitempty"`
	Name string `json:"name,omitempty"`
}

func init() {
	core.Register(&core.Check{
		ID:    "C16",
		Level: "model_checking",
		Rule: "(a) explicit-state search over all sequences of length <= 4 (quick) / 5 (thorough) of 22 script lines (one-line statements, block openers / closers / else, an array literal and a string split over lines, a string line ending in the escape character, strings containing { [ } ; an escaped quote and a backslash, comments containing { \" [, blank lines) fed to the real read-eval loop through the real file reader (with and without final newline) and through an in-memory line reader (REPL style) with a recording parser: the inputs handed to the parser must be, token for token, the statements a lexer-aware splitter finds; " +
			"(b) every script of <= 2 (quick) / 3 (thorough) statements from a 43-statement alphabet (expressions of every value kind, function definitions and calls, multi-line blocks, loops, strings with every special character, a multi-line string, comments, a multi-line array literal, a runtime error, dependent statements) through the built cmd/calc binary in -eval, piped-REPL and file mode (with and without final newline): each mode's output must be what in-process statement-by-statement execution predicts; (c) inputs that cannot be executed (a statement too large for the instruction format; inputs that end inside an open array literal, block, nested literal or string) in all four modes: no mode aborts, every mode prints the diagnostic -eval prints, the statements around them run. states = distinct (nesting depth, open string, pending text) accumulator states of the model; transitions = lines fed",
		Assumptions:     []string{"ill-formed line sequences (a closer without opener, an unfinished block at end of file) are skipped and counted in family (a); family (c) judges the unfinished ones on the built binary", "runtime error reports are compared on their first line only (addresses and instruction numbers differ between modes)"},
		NeedsCalcBinary: true,
		Exec: func(payload string) (string, string) {
			impl.Init()
			var it c16Item
			if err := json.Unmarshal([]byte(payload), &it); err != nil {
				return "harness:bad-payload", err.Error()
			}
			if it.Kind == "lines" {
				s, d, _ := c16JudgeLines(it.Seq, it.Mode)
				return s, d
			}
			if it.Kind == "special" {
				return c16JudgeSpecial(ensureCalcBinary(), it.Name)
			}
			s, d, _ := c16JudgeScript(ensureCalcBinary(), it.Seq)
			return s, d
		},
		Run: c16Run,
	})
}

func c16Run(w *core.W) {
	impl.Init()
	calcBinaryPath = w.CalcBinary
	defer func() {
		if c16Scratch != "" {
			os.RemoveAll(c16Scratch)
		}
	}()
	maxLines := 4
	if w.Thorough() {
		maxLines = 5
	}
	w.Family("line-accumulator")
	gen.Seqs(len(c16Lines), 1, maxLines, func(seq []int) bool {
		for _, mode := range []string{"file", "file-no-final-newline", "repl"} {
			it := c16Item{Kind: "lines", Mode: mode, Seq: append([]int{}, seq...)}
			b, _ := json.Marshal(it)
			if !w.Mine(string(b)) {
				continue
			}
			sig, detail, judged := c16JudgeLines(seq, mode)
			if !judged {
				w.Count("skipped_ill_formed_line_sequences", 1)
				continue
			}
			w.NonTrivial()
			w.Count("transitions", int64(len(seq)))
			w.Count("traces_validated_against_impl", 1)
			lines := make([]string, len(seq))
			for i, x := range seq {
				lines[i] = c16Lines[x]
			}
			d, _, open := delimState(strings.Join(lines, "\n"))
			w.Set("states", fmt.Sprintf("%d/%v/%d", d, open, len(seq)))
			if sig != "" {
				w.Fail(string(b), sig, detail)
			}
		}
		return !w.Expired("time budget reached in the line accumulator search")
	})
	w.Family("three-modes-binary")
	maxStmts := 2
	if w.Thorough() {
		maxStmts = 3
	}
	setup := len(c16Stmts) - 3 // the statement that binds a function and then fails
	gen.Seqs(len(c16Stmts), 1, 3, func(seq []int) bool {
		if len(seq) > maxStmts && seq[0] != setup {
			return true // quick: all scripts of <= 2 statements, and those of 3 that begin with the failing definition
		}
		it := c16Item{Kind: "script", Seq: append([]int{}, seq...)}
		b, _ := json.Marshal(it)
		if !w.Mine(string(b)) {
			return true
		}
		sig, detail, judged := c16JudgeScript(w.CalcBinary, seq)
		if !judged {
			w.Count("skipped_scripts", 1)
			return true
		}
		w.NonTrivial()
		w.Evals(3)
		if sig != "" {
			w.Fail(string(b), sig, detail)
		}
		return !w.Expired("time budget reached in the binary family")
	})
	w.Family("unexecutable-inputs-binary")
	names := []string{}
	for n := range c16Specials {
		names = append(names, n)
	}
	sort.Strings(names)
	for _, n := range names {
		b, _ := json.Marshal(c16Item{Kind: "special", Name: n})
		if !w.Mine(string(b)) {
			continue
		}
		w.NonTrivial()
		w.Evals(4)
		if sig, detail := c16JudgeSpecial(w.CalcBinary, n); sig != "" {
			w.Fail(string(b), sig, detail)
		}
	}
}
