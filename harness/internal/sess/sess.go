// Package sess runs one session (a list of top-level statements given as
// source text) on the real pipeline and on the reference model and compares
// the two statement by statement.
package sess

import (
	"fmt"
	"strconv"
	"strings"

	"github.com/paulsonkoly/calc/types/bytecode"
	"github.com/paulsonkoly/calc/types/node"

	"vharness/internal/impl"
	"vharness/internal/refsem"
)

// Options of a comparison.
type Options struct {
	RefFuel          int  // evaluation steps granted to the reference per statement (default 200000)
	TotalityOnly     bool // judge only host panics, non-termination and undocumented error classes (C05)
	KeepGoing        bool // keep comparing after a domain flag (totality only from there on)
	OnImplStmt       func(i int, s *impl.Session, r impl.StmtResult)
	OnRefStmt        func(i int, in *refsem.Interp, r refsem.Result)
	Opcodes          map[string]int
	Stdin            []string
	AllowParseErrors bool // sessions may contain statements the parser rejects (C08)
}

// Outcome of a comparison.
type Outcome struct {
	Sig         string // "" when the property held
	Detail      string
	Skipped     string   // reason the session (or its tail) was not judged: domain flag, reference fuel, parse
	Judged      int      // statements compared
	Executed    int      // statements the implementation ran to a value or a documented runtime error
	ImplObs     []string // per statement
	RefObs      []string
	Errors      int // statements that ended in a runtime error in both
	ParseErrors int // statements the parser rejected
	Steps       int
}

// DocumentedErrors are the runtime error classes of the language.
var DocumentedErrors = map[string]bool{
	refsem.ErrNil: true, refsem.ErrType: true, refsem.ErrZero: true, refsem.ErrIndex: true,
	refsem.ErrArity: true, refsem.ErrConv: true, refsem.ErrRead: true,
}

// RefObs renders a reference result like impl.StmtResult.Observed.
func RefObs(r refsem.Result) string {
	switch {
	case r.FuelOut:
		return "FUEL"
	case r.Exit:
		return "EXIT " + r.ExitCode.Canon()
	case r.Err != "":
		return "ERR " + r.Err + " | " + strconv.Quote(r.Out)
	}
	return r.Val.Canon() + " | " + strconv.Quote(r.Out)
}

// Compare runs the session on both sides.
func Compare(stmts []string, opt Options) (o Outcome) {
	if opt.RefFuel == 0 {
		opt.RefFuel = 200000
	}
	ref := refsem.NewInterp()
	ref.Stdin = append([]string{}, opt.Stdin...)
	s := impl.NewSession()
	if opt.Opcodes != nil {
		s.Opcodes = map[bytecode.OpCode]int{}
	}
	defer func() {
		if opt.Opcodes != nil {
			for op, n := range s.Opcodes {
				opt.Opcodes[op.String()] += n
			}
		}
	}()
	judging := true
	for i, src := range stmts {
		pr := impl.ParseCached(src)
		if pr.Panic != "" || pr.FuelOut != "" {
			// the front end's totality is C06's subject; here the statement is simply not executable
			o.Skipped = "front end failed on statement " + strconv.Itoa(i)
			if opt.TotalityOnly {
				o.Sig = "front-end:" + pr.Panic + pr.FuelOut + "@" + pr.PanicSite
				o.Detail = fmt.Sprintf("statement %d %q: parser %s%s", i, src, pr.Panic, pr.FuelOut)
			}
			return o
		}
		if pr.Err != "" {
			if !opt.AllowParseErrors {
				// the sessions of every check but C08 and C05 are generated to be valid programs
				o.Sig = "harness:generated-program-does-not-parse"
				o.Detail = fmt.Sprintf("statement %d `%s` is rejected by the parser: %s", i, oneLine(src), pr.Err)
				return o
			}
			o.ParseErrors++
			o.ImplObs = append(o.ImplObs, "PARSE-ERROR")
			o.RefObs = append(o.RefObs, "PARSE-ERROR")
			continue
		}
		for _, tree := range pr.Trees {
			if judging && refsem.UseBeforeDef(tree) {
				judging = false
				o.Skipped = "outside the description: " + refsem.DUseDef
				if !opt.KeepGoing && !opt.TotalityOnly {
					return o
				}
			}
			var rr refsem.Result
			rr = ref.RunStmt(tree, opt.RefFuel)
			if opt.OnRefStmt != nil {
				opt.OnRefStmt(i, ref, rr)
			}
			fuel := 64*rr.Steps + 20000
			if rr.FuelOut {
				o.Skipped = "reference did not finish statement " + strconv.Itoa(i) + " within its fuel"
				return o
			}
			if rr.Exit {
				o.Skipped = "exit() called"
				return o
			}
			ir := s.RunTree(tree, fuel)
			o.Steps += ir.Steps
			if opt.OnImplStmt != nil {
				opt.OnImplStmt(i, s, ir)
			}
			o.ImplObs = append(o.ImplObs, ir.Observed())
			o.RefObs = append(o.RefObs, RefObs(rr))
			where := fmt.Sprintf("statement %d `%s`", i, oneLine(src))
			if ir.Panic != "" {
				o.Sig = "host-panic:" + ir.Panic + "@" + ir.PanicSite
				o.Detail = fmt.Sprintf("%s: the interpreter aborted: %s in %s; reference: %s", where, ir.Panic, ir.PanicSite, RefObs(rr))
				return o
			}
			if ir.FuelOut && !judging {
				// outside the description the two semantics may legitimately differ in how long they run
				o.Skipped += "; VM fuel exhausted there"
				return o
			}
			if ir.FuelOut {
				o.Sig = "non-termination"
				o.Detail = fmt.Sprintf("%s: the VM executed more than %d instructions where the reference needs %d evaluation steps; reference: %s", where, fuel, rr.Steps, RefObs(rr))
				return o
			}
			if ir.Err != "" && !DocumentedErrors[ir.Err] {
				o.Sig = "undocumented-error:" + ir.Err
				o.Detail = fmt.Sprintf("%s: error %q is not a documented runtime error", where, ir.Err)
				return o
			}
			o.Executed++
			if len(rr.Dom) > 0 && judging {
				judging = false
				ks := []string{}
				for k := range rr.Dom {
					ks = append(ks, k)
				}
				o.Skipped = "outside the description: " + strings.Join(ks, ",")
				if !opt.KeepGoing && !opt.TotalityOnly {
					return o
				}
			}
			if !judging || opt.TotalityOnly {
				continue
			}
			o.Judged++
			if sig, detail := judge(ir, rr); sig != "" {
				o.Sig, o.Detail = sig, where+": "+detail
				return o
			}
			if ir.Err != "" {
				o.Errors++
			}
		}
	}
	return o
}

func judge(ir impl.StmtResult, rr refsem.Result) (sig, detail string) {
	switch {
	case ir.Err != "" && rr.Err != "":
		if ir.Err != rr.Err {
			if nilBoolTolerance(ir.Err, rr) {
				break
			}
			return "error-class:" + ir.Err + "-for-" + rr.Err, fmt.Sprintf("implementation reports %q, the language rules give %q (failing operation %s)", ir.Err, rr.Err, rr.Info.Op)
		}
	case ir.Err != "":
		return "error-for-value:" + ir.Err, fmt.Sprintf("implementation reports %q, the language rules give the value %s", ir.Err, rr.Val.Canon())
	case rr.Err != "":
		return "value-for-error:" + rr.Err, fmt.Sprintf("implementation returns %s, the language rules give %q (failing operation %s)", ir.Canon, rr.Err, rr.Info.Op)
	default:
		if ir.Canon != rr.Val.Canon() {
			return "value-differs", fmt.Sprintf("implementation returns %s, the language rules give %s", ir.Canon, rr.Val.Canon())
		}
	}
	if ir.Out != rr.Out {
		return "output-differs", fmt.Sprintf("implementation wrote %q, the language rules give %q", ir.Out, rr.Out)
	}
	return "", ""
}

// T-nil-bool: the description does not say which error a nil value in a
// boolean position is; nil error and type error are identified there.
func nilBoolTolerance(implErr string, rr refsem.Result) bool {
	if rr.Info == nil {
		return false
	}
	if rr.Info.Op != "cond" && rr.Info.Op != "unop:!" {
		return false
	}
	if len(rr.Info.Operands) != 1 || rr.Info.Operands[0].K != refsem.KNil {
		return false
	}
	return implErr == refsem.ErrNil || implErr == refsem.ErrType
}

func oneLine(s string) string {
	s = strings.ReplaceAll(s, "\n", "⏎")
	if len(s) > 300 {
		s = s[:300] + "…"
	}
	return s
}

// ParseAll parses every statement text into trees (nil on any parse failure).
func ParseAll(stmts []string) [][]node.Type {
	r := make([][]node.Type, len(stmts))
	for i, s := range stmts {
		pr := impl.Parse(s, 0)
		if pr.Err != "" || pr.Panic != "" {
			return nil
		}
		r[i] = pr.Trees
	}
	return r
}
