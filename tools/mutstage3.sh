#!/bin/sh
# Stage 3 of the mutation experiment: survivors of stage 2 that are not equivalent on inspection are run again against
# hand-assigned checks (stage 2 only ran the first few checks of a per-file list). Input: mutation/survivors-rerun.tsv
# (file, k, checks); output: mutation/RESULTS-rerun.tsv.
export GOFLAGS=-mod=mod GOPROXY=off GOSUMDB=off GOTOOLCHAIN=local
(cd /verif/tools/mutate && go build -o /tmp/mutate3 .) || exit 2
out=${OUT:-/verif/mutation/RESULTS-rerun.tsv}
: > $out
mkdir -p /tmp/mutseeds3; cd /verif
while IFS="$(printf '\t')" read -r f k checks; do
  id="m3-$(echo $f | tr '/.' '__')-$k"
  /tmp/mutate3 -k $k -o /tmp/mutseeds3/m.go /repo/$f
  (cd /repo && diff -u $f /tmp/mutseeds3/m.go | sed "1s|.*|--- a/$f|;2s|.*|+++ b/$f|") > /tmp/mutseeds3/$id.diff
  verdict="SURVIVED"
  for c in $checks; do
    r=$(SEED_PATCH=/tmp/mutseeds3/$id.diff ./seedmatrix.sh $id $c 2>&1 | tail -1)
    case "$r" in
      *DETECTED*) verdict="detected by $c"; break;;
      *harness-error*) verdict="harness-error in $c"; break;;
    esac
  done
  printf '%s\t%s\t%s\t%s\n' "$f" "$k" "$checks" "$verdict" >> $out
done < /verif/mutation/survivors-rerun.tsv
echo ALLDONE >> $out
