package checks

import (
	"encoding/json"
	"os"
	"path/filepath"
	"testing"

	"vharness/internal/core"
	"vharness/internal/impl"
)

// TestReplays re-executes, without the explorer, the witness of every replay
// artefact kept in the tree: violations found on the way (replays/<ID>/*.json)
// and one witness per seeded change (seeded/<id>/replay-<ID>.json). On a tree
// on which the properties hold every one of them must pass; with the
// corresponding defect (re)introduced it fails with the recorded signature.
//
//	cd /verif/harness && go test -tags verif -run TestReplays ./internal/checks
func TestReplays(t *testing.T) {
	root := os.Getenv("VERIF_DIR")
	if root == "" {
		root = "/verif"
	}
	files, _ := filepath.Glob(filepath.Join(root, "replays", "*", "*.json"))
	seeded, _ := filepath.Glob(filepath.Join(root, "seeded", "*", "replay-*.json"))
	files = append(files, seeded...)
	if len(files) == 0 {
		t.Skip("no replay artefacts in the tree")
	}
	impl.Init()
	for _, f := range files {
		b, err := os.ReadFile(f)
		if err != nil {
			t.Fatal(err)
		}
		var r struct{ Property, Sig, Witness string }
		if err := json.Unmarshal(b, &r); err != nil {
			t.Fatalf("%s: %v", f, err)
		}
		c := core.Lookup(r.Property)
		if c == nil || c.Exec == nil {
			t.Fatalf("%s: no check %q", f, r.Property)
		}
		if sig, detail := c.Exec(r.Witness); sig != "" {
			t.Errorf("%s: property %s is violated by the recorded witness: %s\n%s", f, r.Property, sig, detail)
		}
	}
}
