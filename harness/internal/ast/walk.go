package ast

import (
	"fmt"
	"sort"

	"github.com/paulsonkoly/calc/types/node"
)

// Children returns the direct sub-trees of n in evaluation order.
func Children(n node.Type) []node.Type {
	switch t := n.(type) {
	case node.Int, node.Float, node.Bool, node.String, node.Name:
		return nil
	case node.List:
		return append([]node.Type{}, t.Elems...)
	case node.BinOp:
		return []node.Type{t.Left, t.Right}
	case node.UnOp:
		return []node.Type{t.Target}
	case node.IndexAt:
		return []node.Type{t.Ary, t.At}
	case node.IndexFromTo:
		return []node.Type{t.Ary, t.From, t.To}
	case node.Call:
		return append([]node.Type{}, t.Arguments.Elems...)
	case node.Function:
		return []node.Type{t.Body}
	case node.Assign:
		return []node.Type{t.Value}
	case node.Return:
		return []node.Type{t.Target}
	case node.Yield:
		return []node.Type{t.Target}
	case node.If:
		return []node.Type{t.Condition, t.TrueCase}
	case node.IfElse:
		return []node.Type{t.Condition, t.TrueCase, t.FalseCase}
	case node.While:
		return []node.Type{t.Condition, t.Body}
	case node.For:
		return append(append([]node.Type{}, t.Iterators.Elems...), t.Body)
	case node.Block:
		return append([]node.Type{}, t.Body...)
	}
	panic(fmt.Sprintf("ast: Children of %T", n))
}

// WithChildren rebuilds n with new direct sub-trees (same count as Children(n)).
func WithChildren(n node.Type, cs []node.Type) node.Type {
	switch t := n.(type) {
	case node.Int, node.Float, node.Bool, node.String, node.Name:
		return n
	case node.List:
		return node.List{Elems: append([]node.Type{}, cs...)}
	case node.BinOp:
		return node.BinOp{Op: t.Op, Left: cs[0], Right: cs[1]}
	case node.UnOp:
		return node.UnOp{Op: t.Op, Target: cs[0]}
	case node.IndexAt:
		return node.IndexAt{Ary: cs[0], At: cs[1]}
	case node.IndexFromTo:
		return node.IndexFromTo{Ary: cs[0], From: cs[1], To: cs[2]}
	case node.Call:
		return node.Call{Name: t.Name, Arguments: node.List{Elems: append([]node.Type{}, cs...)}}
	case node.Function:
		return node.Function{Parameters: t.Parameters, Body: cs[0]}
	case node.Assign:
		return node.Assign{VarRef: t.VarRef, Value: cs[0]}
	case node.Return:
		return node.Return{Target: cs[0]}
	case node.Yield:
		return node.Yield{Target: cs[0]}
	case node.If:
		return node.If{Condition: cs[0], TrueCase: cs[1]}
	case node.IfElse:
		return node.IfElse{Condition: cs[0], TrueCase: cs[1], FalseCase: cs[2]}
	case node.While:
		return node.While{Condition: cs[0], Body: cs[1]}
	case node.For:
		k := len(cs) - 1
		return node.For{VarRefs: t.VarRefs, Iterators: node.List{Elems: append([]node.Type{}, cs[:k]...)}, Body: cs[k]}
	case node.Block:
		return mkBlock(cs)
	}
	panic(fmt.Sprintf("ast: WithChildren of %T", n))
}

func mkBlock(cs []node.Type) node.Type {
	flat := []node.Type{}
	for _, c := range cs {
		if b, ok := c.(node.Block); ok {
			flat = append(flat, b.Body...)
		} else {
			flat = append(flat, c)
		}
	}
	if len(flat) == 1 {
		return flat[0]
	}
	return node.Block{Body: flat}
}

// Blk builds a block the way the parser does: a single statement stands for itself.
func Blk(stmts ...node.Type) node.Type { return mkBlock(stmts) }

// Size counts the nodes of a tree.
func Size(n node.Type) int {
	s := 1
	for _, c := range Children(n) {
		s += Size(c)
	}
	return s
}

// Rewrite applies f bottom-up.
func Rewrite(n node.Type, f func(node.Type) node.Type) node.Type {
	cs := Children(n)
	if len(cs) > 0 {
		ncs := make([]node.Type, len(cs))
		for i, c := range cs {
			ncs[i] = Rewrite(c, f)
		}
		n = WithChildren(n, ncs)
	}
	return f(n)
}

// Walk visits every node top-down.
func Walk(n node.Type, f func(node.Type)) {
	f(n)
	for _, c := range Children(n) {
		Walk(c, f)
	}
}

// Names returns the variable names mentioned anywhere in the trees (reads,
// writes, parameters, loop variables), sorted.
func Names(trees ...node.Type) []string {
	set := map[string]bool{}
	for _, t := range trees {
		Walk(t, func(n node.Type) {
			switch x := n.(type) {
			case node.Name:
				set[string(x)] = true
			case node.Assign:
				set[string(x.VarRef.(node.Name))] = true
			case node.Call:
				set[string(x.Name.(node.Name))] = true
			case node.Function:
				for _, p := range x.Parameters.Elems {
					set[string(p.(node.Name))] = true
				}
			case node.For:
				for _, p := range x.VarRefs.Elems {
					set[string(p.(node.Name))] = true
				}
			}
		})
	}
	r := []string{}
	for k := range set {
		r = append(r, k)
	}
	sort.Strings(r)
	return r
}

// Rename renames variables everywhere (reads, writes, parameters, loop variables, callee names).
func Rename(n node.Type, m map[string]string) node.Type {
	rn := func(s node.Type) node.Type {
		if nm, ok := s.(node.Name); ok {
			if to, ok := m[string(nm)]; ok {
				return node.Name(to)
			}
		}
		return s
	}
	rl := func(l node.List) node.List {
		e := make([]node.Type, len(l.Elems))
		for i, x := range l.Elems {
			e[i] = rn(x)
		}
		return node.List{Elems: e}
	}
	return Rewrite(n, func(x node.Type) node.Type {
		switch t := x.(type) {
		case node.Name:
			return rn(t)
		case node.Assign:
			return node.Assign{VarRef: rn(t.VarRef), Value: t.Value}
		case node.Call:
			return node.Call{Name: rn(t.Name), Arguments: t.Arguments}
		case node.Function:
			return node.Function{Parameters: rl(t.Parameters), Body: t.Body}
		case node.For:
			return node.For{VarRefs: rl(t.VarRefs), Iterators: t.Iterators, Body: t.Body}
		}
		return x
	})
}
