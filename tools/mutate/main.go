// mutate: a small mutation tool for the seeded-change experiments (development aid, never part of a registered
// command). It enumerates mutation points of one Go source file and writes the k-th mutant.
//
//	mutate -list file.go            prints "<k>\t<line>\t<kind>\t<description>" for every mutation point
//	mutate -k N -o out.go file.go   writes the N-th mutant
//
// Mutation operators: relational operator replacement (< <= > >= == !=), arithmetic / logical operator
// replacement (+ - && ||), integer literal +1, negated if condition, deleted call or assignment statement,
// deleted `x++` / `x--`.
package main

import (
	"flag"
	"fmt"
	"go/ast"
	"go/parser"
	"go/printer"
	"go/token"
	"os"
	"strconv"
)

type point struct {
	line  int
	kind  string
	desc  string
	apply func()
}

func main() {
	list := flag.Bool("list", false, "list mutation points")
	k := flag.Int("k", -1, "mutant to write")
	out := flag.String("o", "", "output file")
	flag.Parse()
	file := flag.Arg(0)
	fset := token.NewFileSet()
	f, err := parser.ParseFile(fset, file, nil, parser.ParseComments)
	if err != nil {
		fmt.Fprintln(os.Stderr, err)
		os.Exit(2)
	}
	var pts []point
	add := func(pos token.Pos, kind, desc string, apply func()) {
		pts = append(pts, point{fset.Position(pos).Line, kind, desc, apply})
	}
	rel := map[token.Token][]token.Token{
		token.LSS: {token.LEQ}, token.LEQ: {token.LSS}, token.GTR: {token.GEQ}, token.GEQ: {token.GTR},
		token.EQL: {token.NEQ}, token.NEQ: {token.EQL},
		token.ADD: {token.SUB}, token.SUB: {token.ADD}, token.LAND: {token.LOR}, token.LOR: {token.LAND},
	}
	var inspectBlock func(list *[]ast.Stmt)
	inspectBlock = func(list *[]ast.Stmt) {
		for i := range *list {
			i := i
			st := (*list)[i]
			del := func(kind string) {
				add(st.Pos(), kind, "statement deleted", func() { (*list)[i] = &ast.EmptyStmt{Semicolon: st.Pos()} })
			}
			switch s := st.(type) {
			case *ast.ExprStmt:
				if c, ok := s.X.(*ast.CallExpr); ok {
					if id, ok := c.Fun.(*ast.Ident); ok && (id.Name == "panic" || id.Name == "verifStep" || id.Name == "verifTick") {
						continue
					}
					if se, ok := c.Fun.(*ast.SelectorExpr); ok && (se.Sel.Name == "Panicf" || se.Sel.Name == "Panic" || se.Sel.Name == "Fatal") {
						continue
					}
					del("del-call")
				}
			case *ast.AssignStmt:
				if s.Tok != token.DEFINE {
					del("del-assign")
				}
			case *ast.IncDecStmt:
				del("del-incdec")
			}
		}
	}
	ast.Inspect(f, func(n ast.Node) bool {
		switch x := n.(type) {
		case *ast.GenDecl:
			if x.Tok == token.CONST || x.Tok == token.VAR && false {
				return false
			}
		case *ast.BinaryExpr:
			for _, alt := range rel[x.Op] {
				alt, orig := alt, x.Op
				add(x.OpPos, "op", orig.String()+" -> "+alt.String(), func() { x.Op = alt })
			}
		case *ast.BasicLit:
			if x.Kind == token.INT {
				if v, err := strconv.ParseInt(x.Value, 0, 64); err == nil && v >= 0 && v < 1000 {
					add(x.Pos(), "lit", x.Value+" -> "+strconv.FormatInt(v+1, 10), func() { x.Value = strconv.FormatInt(v+1, 10) })
				}
			}
		case *ast.IfStmt:
			add(x.Cond.Pos(), "if", "condition negated", func() { x.Cond = &ast.UnaryExpr{Op: token.NOT, X: &ast.ParenExpr{X: x.Cond}} })
		case *ast.BlockStmt:
			inspectBlock(&x.List)
		case *ast.CaseClause:
			inspectBlock(&x.Body)
		}
		return true
	})
	if *list {
		for i, p := range pts {
			fmt.Printf("%d\t%d\t%s\t%s\n", i, p.line, p.kind, p.desc)
		}
		return
	}
	if *k < 0 || *k >= len(pts) || *out == "" {
		fmt.Fprintln(os.Stderr, "usage: mutate -list file.go | mutate -k N -o out.go file.go")
		os.Exit(2)
	}
	pts[*k].apply()
	w, err := os.Create(*out)
	if err != nil {
		fmt.Fprintln(os.Stderr, err)
		os.Exit(2)
	}
	defer w.Close()
	if err := printer.Fprint(w, fset, f); err != nil {
		fmt.Fprintln(os.Stderr, err)
		os.Exit(2)
	}
}
