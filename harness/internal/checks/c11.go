package checks

import (
	"encoding/json"
	"fmt"
	"math"
	"strconv"
	"strings"
	"vharness/internal/sess"

	"github.com/paulsonkoly/calc/types/bytecode"
	"github.com/paulsonkoly/calc/types/value"

	"vharness/internal/core"
	"vharness/internal/impl"
	"vharness/internal/refsem"
)

// C11: operators obey the documented value algebra on every operand tuple.

func c11Values() []refsem.Val {
	I, F, S := refsem.Int, refsem.Float, refsem.Str
	A := func(v ...refsem.Val) refsem.Val { return refsem.Val{K: refsem.KArr, A: append([]refsem.Val{}, v...)} }
	fn := refsem.Val{K: refsem.KFn}
	return []refsem.Val{
		refsem.Nil,
		I(0), I(1), I(-1), I(2), I(3), I(7), I(63), I(64), I(65), I(1 << 53), I(1<<53 + 1), I(math.MaxInt64), I(math.MinInt64),
		F(0), F(math.Copysign(0, -1)), F(0.5), F(-1.5), F(1), F(2), F(float64(1 << 53)), F(1e308), F(math.Inf(1)), F(math.Inf(-1)), F(math.NaN()),
		refsem.Bool(true), refsem.Bool(false),
		S(""), S("a"), S("ab"), S("é"), S("abc"),
		A(), A(I(1)), A(F(1)), A(I(1), I(2)), A(A(I(1))), A(S("a")), A(fn), A(I(1), I(2), I(3)), A(refsem.Bool(true)),
		fn, fn,
		A(F(math.NaN())), A(A(F(0.5), F(math.NaN())), S("x")), A(I(1), fn),
	}
}

type c11Item struct {
	Op   string `json:"op"`
	Args []int  `json:"args"` // indices into c11Values
}

var c11BinOps = []string{"+", "-", "*", "/", "%", "<", ">", "<=", ">=", "&", "|", "<<", ">>", "==", "!="}
var c11UnOps = []string{"!", "~", "#", "-"}

func c11Apply(op string, a []value.Type) (v value.Type, err error) {
	switch op {
	case "+":
		return a[0].Arith(bytecode.ADD, a[1])
	case "-":
		if len(a) == 1 {
			return value.NewInt(-1).Arith(bytecode.MUL, a[0])
		}
		return a[0].Arith(bytecode.SUB, a[1])
	case "*":
		return a[0].Arith(bytecode.MUL, a[1])
	case "/":
		return a[0].Arith(bytecode.DIV, a[1])
	case "%":
		return a[0].Mod(a[1])
	case "<":
		return a[0].Relational(bytecode.LT, a[1])
	case ">":
		return a[0].Relational(bytecode.GT, a[1])
	case "<=":
		return a[0].Relational(bytecode.LE, a[1])
	case ">=":
		return a[0].Relational(bytecode.GE, a[1])
	case "&":
		return a[0].Logic(bytecode.AND, a[1])
	case "|":
		return a[0].Logic(bytecode.OR, a[1])
	case "<<":
		return a[0].Shift(bytecode.LSH, a[1])
	case ">>":
		return a[0].Shift(bytecode.RSH, a[1])
	case "==":
		return a[0].Eq(bytecode.EQ, a[1])
	case "!=":
		return a[0].Eq(bytecode.NE, a[1])
	case "!":
		return a[0].Not()
	case "~":
		return a[0].Flip()
	case "#":
		return a[0].Len()
	case "ix1":
		return a[0].Index(a[1])
	case "ix2":
		return a[0].Index(a[1], a[2])
	}
	panic("c11: op " + op)
}

// observation of the implementation: canon of value or "ERR class" or "PANIC …"
func c11Impl(op string, vals []refsem.Val) (obs string, isErr bool) {
	a := make([]value.Type, len(vals))
	for i, v := range vals {
		a[i] = impl.FromRef(v)
	}
	defer func() {
		if r := recover(); r != nil {
			obs = fmt.Sprintf("PANIC %v @%s", r, impl.PanicSite())
		}
	}()
	v, err := c11Apply(op, a)
	// an operator never changes its operands (values are immutable)
	for i := range a {
		if now := impl.ToRef(a[i]).Canon(); now != vals[i].Canon() {
			return fmt.Sprintf("PANIC operand %d of %s changed from %s to %s @operand-mutated", i, op, vals[i].Canon(), now), false
		}
	}
	if err != nil {
		return "ERR " + impl.ErrClass(err), true
	}
	return impl.ToRef(v).Canon(), false
}

func c11Ref(op string, vals []refsem.Val) (obs string, dom string) {
	var v refsem.Val
	var e string
	switch {
	case op == "ix1":
		v, e = refsem.Index1(vals[0], vals[1])
	case op == "ix2":
		v, e = refsem.Index2(vals[0], vals[1], vals[2])
	case len(vals) == 1:
		v, e, dom = refsem.UnOp(op, vals[0])
	default:
		v, e, dom = refsem.BinOp(op, vals[0], vals[1])
	}
	if e != "" {
		return "ERR " + e, dom
	}
	return v.Canon(), dom
}

func c11IndexDomain() (containers []refsem.Val, indices []refsem.Val) {
	I := refsem.Int
	for n := 0; n <= 4; n++ {
		el := make([]refsem.Val, n)
		for i := range el {
			el[i] = I(10 + i)
		}
		containers = append(containers, refsem.Val{K: refsem.KArr, A: el})
		containers = append(containers, refsem.Str("abcd"[:n]))
	}
	containers = append(containers, refsem.Str("naïve"), refsem.Str("é"), refsem.Str("日本"))
	containers = append(containers, refsem.Nil, I(5), refsem.Float(1.5), refsem.Bool(true), refsem.Val{K: refsem.KFn},
		refsem.Val{K: refsem.KArr, A: []refsem.Val{{K: refsem.KArr, A: []refsem.Val{I(1)}}, refsem.Str("x")}})
	for i := -2; i <= 8; i++ {
		indices = append(indices, I(i))
	}
	indices = append(indices, I(math.MaxInt64), I(math.MinInt64), refsem.Nil, refsem.Float(1), refsem.Bool(false), refsem.Str("0"), refsem.Val{K: refsem.KArr})
	return
}

// c11Ref addresses a value of one of the alphabets, so payloads stay plain JSON (NaN and ±Inf included).
type c11Ref1 struct {
	Alpha string `json:"a"` // V | C | X | lit
	Ix    int    `json:"i"`
}

type c11Payload1 struct {
	Op   string    `json:"op"` // operator, or law:<name>
	Refs []c11Ref1 `json:"refs"`
	Text string    `json:"text"`
}

func c11Resolve(r c11Ref1) refsem.Val {
	switch r.Alpha {
	case "V":
		return c11Values()[r.Ix]
	case "C":
		cs, _ := c11IndexDomain()
		return cs[r.Ix]
	case "X":
		_, xs := c11IndexDomain()
		return xs[r.Ix]
	case "lit":
		return refsem.Int(r.Ix)
	}
	panic("c11: alphabet " + r.Alpha)
}

func c11Exec(payload string) (sig, detail string) {
	var it c11Payload1
	if err := json.Unmarshal([]byte(payload), &it); err != nil {
		return "harness:bad-payload", err.Error()
	}
	vals := make([]refsem.Val, len(it.Refs))
	for i, r := range it.Refs {
		vals[i] = c11Resolve(r)
	}
	if it.Op == "alias" {
		return c11Alias(vals[0])
	}
	if it.Op == "compiled-index" {
		impl.Init()
		return c11CompiledIndex(vals[0], vals[1].I, vals[2].I)
	}
	if strings.HasPrefix(it.Op, "compiled:") {
		impl.Init()
		return c11Compiled(strings.TrimPrefix(it.Op, "compiled:"), vals[0], vals[1])
	}
	if strings.HasPrefix(it.Op, "law:") {
		return c11Law(strings.TrimPrefix(it.Op, "law:"), vals)
	}
	return c11Judge(it.Op, vals)
}

func c11Pay(op string, vals []refsem.Val, refs ...c11Ref1) string {
	b, _ := json.Marshal(c11Payload1{Op: op, Refs: refs, Text: c11Text(op, vals)})
	return string(b)
}

func c11Text(op string, vals []refsem.Val) string {
	parts := make([]string, len(vals))
	for i, v := range vals {
		parts[i] = v.Canon()
	}
	return op + "(" + strings.Join(parts, ", ") + ")"
}

// c11Judge compares one tuple with the specification.
func c11Judge(op string, vals []refsem.Val) (sig, detail string) {
	got, gotErr := c11Impl(op, vals)
	want, dom := c11Ref(op, vals)
	if strings.HasPrefix(got, "PANIC") {
		return "host-panic:" + op + ":" + kinds(vals), fmt.Sprintf("%s: implementation panicked: %s (documented: %s)", c11Text(op, vals), got, want)
	}
	for _, v := range vals {
		if v.K == refsem.KNil {
			// "an absent (nil) operand is always an error": any error class satisfies the statement
			if !gotErr {
				return "nil-operand-accepted:" + op, fmt.Sprintf("%s returned %s, an error is documented", c11Text(op, vals), got)
			}
			return "", ""
		}
	}
	if dom != "" {
		// outside the description (shift count, float division by zero, NaN order, inexact int→float): only a host fault is judged
		return "", ""
	}
	if got != want {
		return "value-algebra:" + op + ":" + kinds(vals), fmt.Sprintf("%s: implementation %s, documented %s", c11Text(op, vals), got, want)
	}
	return "", ""
}

func kinds(vals []refsem.Val) string {
	p := make([]string, len(vals))
	for i, v := range vals {
		p[i] = v.K.String()
	}
	return strings.Join(p, ",")
}

var c11PairLaws = []string{"eq-symmetric", "ne-negates-eq", "functions-never-equal", "lt-gt-mirror", "le-ge-mirror", "lt-implies-le", "trichotomy", "le-is-lt-or-eq", "int-equals-its-float", "len-of-concat"}

// c11Law evaluates one law on the implementation's own answers; sig "" = holds or does not apply.
func c11Law(name string, t []refsem.Val) (sig, detail string) {
	ob := func(op string, t ...refsem.Val) string { s, _ := c11Impl(op, t); return s }
	isNum := func(v refsem.Val) bool {
		return v.K == refsem.KInt || (v.K == refsem.KFloat && !math.IsNaN(v.F))
	}
	ok, applies := true, false
	switch name {
	case "slice-length":
		c, i, j := t[0], t[1], t[2]
		applies = true
		sl := ob("ix2", c, i, j)
		slv, e := refsem.Index2(c, i, j)
		if e != "" {
			return "", ""
		}
		ln := ob("#", slv)
		ok = sl == slv.Canon() && ln == fmt.Sprintf("i:%d", j.I-i.I)
		detail = fmt.Sprintf("s[%d:%d]=%s length %s", i.I, j.I, sl, ln)
	case "split-and-rejoin":
		c, i := t[0], t[1]
		applies = true
		n, _, _ := refsem.UnOp("#", c)
		left, _ := refsem.Index2(c, refsem.Int(0), i)
		right, _ := refsem.Index2(c, i, n)
		l2, r2 := ob("ix2", c, refsem.Int(0), i), ob("ix2", c, i, n)
		whole := ob("+", left, right)
		ok = l2 == left.Canon() && r2 == right.Canon() && whole == c.Canon() && ob("==", whole2(c, i), c) == "b:true"
		detail = fmt.Sprintf("s[0:%d]=%s s[%d:#s]=%s rejoined=%s s=%s", i.I, l2, i.I, r2, whole, c.Canon())
	default:
		a, b := t[0], t[1]
		eqab, eqba := ob("==", a, b), ob("==", b, a)
		switch name {
		case "eq-symmetric":
			applies, ok = true, eqab == eqba
			detail = fmt.Sprintf("a==b is %s but b==a is %s", eqab, eqba)
		case "ne-negates-eq":
			ne := ob("!=", a, b)
			applies = true
			ok = (eqab == "b:true" && ne == "b:false") || (eqab == "b:false" && ne == "b:true") || (strings.HasPrefix(eqab, "ERR") && ne == eqab)
			detail = fmt.Sprintf("a==b is %s, a!=b is %s", eqab, ne)
		case "functions-never-equal":
			applies = containsFn(a) || containsFn(b)
			ok = eqab != "b:true"
			detail = "a value containing a function compared equal"
		case "int-equals-its-float":
			if a.K == refsem.KInt && refsem.Exact(a.I) {
				applies = true
				f := refsem.Float(float64(a.I))
				ok = ob("==", a, f) == "b:true" && ob("==", f, a) == "b:true" && ob("!=", a, f) == "b:false"
				detail = "an int differs from the float of the same value"
			}
		case "len-of-concat":
			if (a.K == refsem.KArr && b.K == refsem.KArr) || (a.K == refsem.KStr && b.K == refsem.KStr) {
				applies = true
				sum := ob("+", a, b)
				cat, _, _ := refsem.BinOp("+", a, b)
				la, _, _ := refsem.UnOp("#", a)
				lb, _, _ := refsem.UnOp("#", b)
				ls := ob("#", cat)
				ok = sum == cat.Canon() && ls == fmt.Sprintf("i:%d", la.I+lb.I) && ob("#", a) == la.Canon() && ob("#", b) == lb.Canon()
				detail = fmt.Sprintf("a+b=%s #(a+b)=%s #a=%s #b=%s", sum, ls, ob("#", a), ob("#", b))
			}
		default:
			if !(isNum(a) && isNum(b)) {
				return "", ""
			}
			applies = true
			lt, gt, le, ge := ob("<", a, b), ob(">", a, b), ob("<=", a, b), ob(">=", a, b)
			switch name {
			case "lt-gt-mirror":
				ok = lt == ob(">", b, a)
				detail = fmt.Sprintf("a<b is %s, b>a is %s", lt, ob(">", b, a))
			case "le-ge-mirror":
				ok = le == ob(">=", b, a)
				detail = fmt.Sprintf("a<=b is %s, b>=a is %s", le, ob(">=", b, a))
			case "lt-implies-le":
				ok = !(lt == "b:true" && le != "b:true") && !(gt == "b:true" && ge != "b:true")
				detail = fmt.Sprintf("lt=%s le=%s gt=%s ge=%s", lt, le, gt, ge)
			case "trichotomy":
				n := 0
				for _, s := range []string{lt, eqab, gt} {
					if s == "b:true" {
						n++
					}
				}
				ok = n == 1
				detail = fmt.Sprintf("a<b=%s a==b=%s a>b=%s", lt, eqab, gt)
			case "le-is-lt-or-eq":
				ok = (le == "b:true") == (lt == "b:true" || eqab == "b:true")
				detail = fmt.Sprintf("le=%s lt=%s eq=%s", le, lt, eqab)
			default:
				panic("c11: law " + name)
			}
		}
	}
	if !applies || ok {
		return "", ""
	}
	return "law:" + name + ":" + kinds(t), c11Text(name, t) + ": " + detail
}

// c11Alias applies the operators to one implementation value used twice, to a full slice of it and to two
// concatenations that extend the same left operand.
func c11Alias(a refsem.Val) (sig, detail string) {
	defer func() {
		if r := recover(); r != nil {
			sig, detail = "host-panic:alias", fmt.Sprint(r)
		}
	}()
	x := impl.FromRef(a)
	obs := func(v value.Type, err error) string {
		if err != nil {
			return "ERR " + impl.ErrClass(err)
		}
		return impl.ToRef(v).Canon()
	}
	for _, op := range []string{"==", "!=", "<", "<=", "+", "-", "&"} {
		want, _ := c11Ref(op, []refsem.Val{a, a})
		_, dom := c11Ref(op, []refsem.Val{a, a})
		if dom != "" || a.K == refsem.KNil {
			continue
		}
		got := obs(c11Apply(op, []value.Type{x, x}))
		if got != want {
			return "identity-sensitive:" + op + ":" + a.K.String(), fmt.Sprintf("%s applied to one and the same value %s gives %s, documented %s", op, a.Canon(), got, want)
		}
	}
	if a.K != refsem.KArr {
		return "", ""
	}
	n := len(a.A)
	full, err := x.Index(value.NewInt(0), value.NewInt(n))
	if err != nil {
		return "identity-sensitive:slice", "full slice fails: " + err.Error()
	}
	wantEq, _ := c11Ref("==", []refsem.Val{a, a})
	if got := obs(x.Eq(bytecode.EQ, full)); got != wantEq {
		return "identity-sensitive:==:slice", fmt.Sprintf("%s == its own full slice gives %s, documented %s", a.Canon(), got, wantEq)
	}
	if got := obs(full.Eq(bytecode.NE, x)); (got == "b:true") == (wantEq == "b:true") && !strings.HasPrefix(wantEq, "ERR") {
		return "identity-sensitive:!=:slice", fmt.Sprintf("%s != its own full slice gives %s although == gives %s", a.Canon(), got, wantEq)
	}
	// base = a + [90]; l = base + [10]; r = base + [20]: l must keep its value, base and a too
	ext := func(l value.Type, k int) value.Type {
		r, err := l.Arith(bytecode.ADD, value.NewArray([]value.Type{value.NewInt(k)}))
		if err != nil {
			panic(err)
		}
		return r
	}
	base := ext(x, 90)
	baseWas := impl.ToRef(base).Canon()
	for _, pre := range []value.Type{base, x, full} {
		preWas := impl.ToRef(pre).Canon()
		l := ext(pre, 10)
		lWas := impl.ToRef(l).Canon()
		r := ext(pre, 20)
		_ = r
		if now := impl.ToRef(l).Canon(); now != lWas {
			return "concat-alters-earlier-result", fmt.Sprintf("l = v + [10] was %s, after r = v + [20] it is %s (v = %s)", lWas, now, preWas)
		}
		if now := impl.ToRef(pre).Canon(); now != preWas {
			return "concat-alters-operand", fmt.Sprintf("v was %s, after two concatenations it is %s", preWas, now)
		}
	}
	if now := impl.ToRef(base).Canon(); now != baseWas || impl.ToRef(x).Canon() != a.Canon() {
		return "concat-alters-operand", fmt.Sprintf("operand %s / %s changed to %s / %s", a.Canon(), baseWas, impl.ToRef(x).Canon(), now)
	}
	return "", ""
}

func whole2(c, i refsem.Val) refsem.Val {
	n, _, _ := refsem.UnOp("#", c)
	l, _ := refsem.Index2(c, refsem.Int(0), i)
	r, _ := refsem.Index2(c, i, n)
	v, _, _ := refsem.BinOp("+", l, r)
	return v
}

func containsFn(v refsem.Val) bool {
	if v.K == refsem.KFn {
		return true
	}
	for _, e := range v.A {
		if containsFn(e) {
			return true
		}
	}
	return false
}

func init() {
	core.Register(&core.Check{
		ID:      "C11",
		Level:   "exploration",
		Workers: 1,
		Rule: "every operand tuple over a 43-value alphabet (nil, boundary ints, floats incl. ±0/±Inf/NaN, bools, strings, nested arrays, functions) for all 15 binary operator methods, 4 unary ones, and Index over containers of length 0..4 x indices -2..6 plus extremes; " +
			"each tuple compared with the specification table of refsem (written from Readme.md), and the algebraic laws (==/!= symmetry and negation, order consistency, trichotomy, slice length/concatenation laws) evaluated on the implementation's own results; " +
			"distinct = distinct (operator or law, operand tuple); non-trivial = tuples on which the documented result is a value or a non-nil error (not merely 'nil operand' or 'left open by the description')",
		Assumptions: []string{
			"value.Type methods are called directly (Arith/Mod/Relational/Logic/Shift/Eq/Not/Flip/Len/Index), as the VM calls them",
			"unary minus is checked as -1 * x, its documented rewriting",
			"tuples whose outcome the description leaves open (shift counts outside 0..63, >> of a negative int, float division by zero, NaN ordering, int→float conversions that round) are only required not to crash the host",
		},
		Exec: c11Exec,
		Run:  c11Run,
	})
}

func c11Run(w *core.W) {
	vals := c11Values()
	judge := func(op string, tuple []refsem.Val, refs ...c11Ref1) {
		key := c11Text(op, tuple)
		if !w.Mine(key) {
			return
		}
		_, dom := c11Ref(op, tuple)
		trivial := dom != ""
		for _, v := range tuple {
			if v.K == refsem.KNil {
				trivial = true
			}
		}
		if !trivial {
			w.NonTrivial()
		}
		if dom != "" {
			w.Count("skipped_undefined:"+dom, 1)
		}
		if sig, detail := c11Judge(op, tuple); sig != "" {
			w.Fail(c11Pay(op, tuple, refs...), sig, detail)
		}
	}
	w.Family("binary")
	for _, op := range c11BinOps {
		for i, a := range vals {
			for j, b := range vals {
				judge(op, []refsem.Val{a, b}, c11Ref1{"V", i}, c11Ref1{"V", j})
			}
		}
	}
	w.Family("unary")
	for _, op := range c11UnOps {
		for i, a := range vals {
			judge(op, []refsem.Val{a}, c11Ref1{"V", i})
		}
	}
	cs, ixs := c11IndexDomain()
	w.Family("index")
	for ci, c := range cs {
		for ii, i := range ixs {
			judge("ix1", []refsem.Val{c, i}, c11Ref1{"C", ci}, c11Ref1{"X", ii})
			for ji, j := range ixs {
				judge("ix2", []refsem.Val{c, i, j}, c11Ref1{"C", ci}, c11Ref1{"X", ii}, c11Ref1{"X", ji})
			}
		}
	}

	w.Family("laws")
	law := func(name string, tuple []refsem.Val, refs ...c11Ref1) {
		key := c11Text(name, tuple)
		if !w.Mine(key) {
			return
		}
		sig, detail := c11Law(name, tuple)
		w.NonTrivial()
		if sig != "" {
			w.Fail(c11Pay("law:"+name, tuple, refs...), sig, detail)
		}
	}
	for i, a := range vals {
		for j, b := range vals {
			for _, name := range c11PairLaws {
				law(name, []refsem.Val{a, b}, c11Ref1{"V", i}, c11Ref1{"V", j})
			}
		}
	}
	// the same value object on both sides, a copy and a full slice of it (shared backing store), and two
	// extensions of the same left operand: answers may not depend on identity, and a + b may not change a
	w.Family("aliasing")
	for i, a := range vals {
		key := "alias " + a.Canon()
		if !w.Mine(key) {
			continue
		}
		w.NonTrivial()
		if sig, detail := c11Alias(a); sig != "" {
			w.Fail(c11Pay("alias", []refsem.Val{a}, c11Ref1{"V", i}), sig, detail)
		}
	}
	// the same tuples through the compiler and the VM: operands bound to globals, the operator written in a program,
	// alone, under one and two negations, inside an array literal and with the same variable on both sides
	w.Family("compiled")
	impl.Init()
	for _, op := range c11BinOps {
		for i, a := range vals {
			for j, b := range vals {
				key := c11Text("compiled:"+op, []refsem.Val{a, b})
				if !w.Mine(key) {
					continue
				}
				if a.K != refsem.KNil && b.K != refsem.KNil {
					w.NonTrivial()
				}
				if sig, detail := c11Compiled(op, a, b); sig != "" {
					w.Fail(c11Pay("compiled:"+op, []refsem.Val{a, b}, c11Ref1{"V", i}, c11Ref1{"V", j}), sig, detail)
				}
			}
		}
	}
	// indexing and slicing written in programs: plain, with the bounds computed by calls (whose bodies use the temp
	// register), to the right of a compound operand, and the slice laws as program text
	w.Family("compiled-index")
	for ci, c := range cs {
		if _, ok := c11Lit(c); !ok || (c.K != refsem.KArr && c.K != refsem.KStr) {
			continue
		}
		for i := -1; i <= 6; i++ {
			for j := -1; j <= 6; j++ {
				tuple := []refsem.Val{c, refsem.Int(i), refsem.Int(j)}
				if !w.Mine(c11Text("compiled-index", tuple)) {
					continue
				}
				w.NonTrivial()
				if sig, detail := c11CompiledIndex(c, i, j); sig != "" {
					w.Fail(c11Pay("compiled-index", tuple, c11Ref1{"C", ci}, c11Ref1{"lit", i}, c11Ref1{"lit", j}), sig, detail)
				}
			}
		}
	}
	w.Family("laws")
	for ci, c := range cs {
		if c.K != refsem.KArr && c.K != refsem.KStr {
			continue
		}
		n, _, _ := refsem.UnOp("#", c)
		for i := 0; i <= n.I; i++ {
			for j := i; j <= n.I; j++ {
				law("slice-length", []refsem.Val{c, refsem.Int(i), refsem.Int(j)}, c11Ref1{"C", ci}, c11Ref1{"lit", i}, c11Ref1{"lit", j})
			}
			law("split-and-rejoin", []refsem.Val{c, refsem.Int(i)}, c11Ref1{"C", ci}, c11Ref1{"lit", i})
		}
	}
}

// c11Compiled evaluates `x OP y` in compiled programs with x and y bound to the two values.
func c11Compiled(op string, a, b refsem.Val) (sig, detail string) {
	if a.K == refsem.KNil || b.K == refsem.KNil {
		return "", "" // any error satisfies the statement (binary family)
	}
	r, errc, dom := refsem.BinOp(op, a, b)
	if dom != "" {
		return "", ""
	}
	obs := func(v refsem.Val, e string) string {
		if e != "" {
			return "ERR " + e
		}
		return v.Canon()
	}
	not := func(v refsem.Val, e string) (refsem.Val, string) {
		if e != "" {
			return v, e
		}
		n, e2, _ := refsem.UnOp("!", v)
		return n, e2
	}
	n1, e1 := not(r, errc)
	n2, e2 := not(n1, e1)
	pair, ep := refsem.Arr(r, n1), e1
	if errc != "" {
		ep = errc
	}
	type st struct{ src, want string }
	x := "x " + op + " y"
	sts := []st{
		{x, obs(r, errc)},
		{"!(" + x + ")", obs(n1, e1)},
		{"!(!(" + x + "))", obs(n2, e2)},
		{"[" + x + ", !(" + x + ")]", obs(pair, ep)},
		{"t = !(" + x + ")", obs(n1, e1)},
	}
	if a.Canon() == b.Canon() || (a.K == refsem.KFn && b.K == refsem.KFn) {
		rs, es, ds := refsem.BinOp(op, a, a)
		if ds == "" {
			sts = append(sts, st{"x " + op + " x", obs(rs, es)}, st{"id(x) " + op + " x", obs(rs, es)})
		}
	}
	s := impl.NewSession()
	s.M.SetGlobal("x", impl.FromRef(a))
	s.M.SetGlobal("y", impl.FromRef(b))
	s.M.SetGlobal("t", impl.FromRef(refsem.Int(0)))
	pre := impl.ParseCached("id = (v) -> v")
	s.RunTree(pre.Trees[0], 10000)
	for _, c := range sts {
		pr := impl.ParseCached(c.src)
		if pr.Err != "" || pr.Panic != "" || pr.FuelOut != "" {
			return "harness:generated-program-does-not-parse", c.src + ": " + pr.Err + pr.Panic
		}
		if s.Dead {
			break
		}
		res := s.RunTree(pr.Trees[0], 100000)
		got := res.Observed()
		if i := strings.LastIndex(got, " | "); i >= 0 {
			got = got[:i]
		}
		if got != c.want {
			return "compiled-value-algebra:" + op + ":" + kinds([]refsem.Val{a, b}), fmt.Sprintf("with x = %s and y = %s the program `%s` gives %s, documented %s", a.Canon(), b.Canon(), c.src, got, c.want)
		}
	}
	return "", ""
}

// c11Lit writes a value as a literal of the language (ints, strings, arrays of those).
func c11Lit(v refsem.Val) (string, bool) {
	switch v.K {
	case refsem.KInt:
		if v.I < 0 {
			return "", false
		}
		return strconv.Itoa(v.I), true
	case refsem.KStr:
		return "\"" + strings.ReplaceAll(strings.ReplaceAll(v.S, "\"", "\\\""), "\n", "\\n") + "\"", true
	case refsem.KArr:
		parts := make([]string, len(v.A))
		for i, e := range v.A {
			p, ok := c11Lit(e)
			if !ok {
				return "", false
			}
			parts[i] = p
		}
		return "[" + strings.Join(parts, ", ") + "]", true
	}
	return "", false
}

// c11CompiledIndex runs the index and slice forms over the container c and the positions i, j as a program, on
// the real VM and on the reference model.
func c11CompiledIndex(c refsem.Val, i, j int) (sig, detail string) {
	lit, _ := c11Lit(c)
	n := func(k int) string {
		if k < 0 {
			return "(0 - " + strconv.Itoa(-k) + ")"
		}
		return strconv.Itoa(k)
	}
	I, J := n(i), n(j)
	empty := "[]"
	if c.K == refsem.KStr {
		empty = "\"\""
	}
	stmts := []string{
		"ln = (v) -> #v * 1 + 0",
		"ar = (k) -> k + 0 * 1",
		"c = " + lit,
		"c[" + I + "]",
		"c[" + I + ":" + J + "]",
		"[c[ar(" + I + "):" + J + "], c[" + I + ":ar(" + J + ")], c[ar(" + I + "):ar(" + J + ")]]",
		"1 * 2 + #c[" + I + ":ar(" + J + ")]",
		"#c[ar(" + I + "):" + J + "] - 1 * 2",
		empty + " + " + empty + " + c[" + I + ":ar(" + J + ")]",
		"c[0:" + I + "] + c[" + I + ":ln(c)] == c",
		"#c[0:" + I + "] + #c[" + I + ":ln(c)] == ln(c)",
		"c[" + I + ":" + J + "] == c[0:" + J + "][" + I + ":ar(" + J + ")]",
		"c[ar(" + I + ")]",
		"1 * 2 + #[c[ar(" + I + ")]]",
		// a view of c (possibly empty, possibly with elements of c behind its end) extended twice: neither c nor the first result may change
		"v = c[" + I + ":" + J + "]",
		"p = v + c[0:1]",
		"q = v + c[0:2]",
		"[p, q, v]",
		"c[0:" + I + "] + c[" + I + ":ln(c)] == c",
		"c",
	}
	o := sess.Compare(stmts, sess.Options{KeepGoing: true})
	if o.Sig != "" {
		return "compiled-index:" + o.Sig, fmt.Sprintf("c = %s, i = %d, j = %d: %s", lit, i, j, o.Detail)
	}
	return "", ""
}
