package checks

import (
	"encoding/json"
	"fmt"
	"strings"

	"github.com/paulsonkoly/calc/types/node"

	"vharness/internal/core"
	"vharness/internal/gen"
	. "vharness/internal/gen"
	"vharness/internal/impl"
	"vharness/internal/sess"
)

// C12: an expression means the same wherever it is written (differential on the real code).

type implObs struct {
	Last  string // canon value of the last statement, "ERR class", "PANIC …", "FUEL"
	Err   string
	Out   string
	Fault bool
}

// runImplOnly runs a session on a fresh real VM; the observation is the last
// statement's result (or the first error) and the whole output.
func runImplOnly(stmts []string, fuel int) implObs {
	s := impl.NewSession()
	var o implObs
	for _, src := range stmts {
		pr := impl.ParseCached(src)
		if pr.Err != "" || pr.Panic != "" || pr.FuelOut != "" {
			return implObs{Last: "PARSE " + pr.Err + pr.Panic + pr.FuelOut, Fault: true}
		}
		for _, t := range pr.Trees {
			r := s.RunTree(t, fuel)
			o.Out += r.Out
			switch {
			case r.Panic != "":
				return implObs{Last: "PANIC " + r.Panic + " @" + r.PanicSite, Out: o.Out, Fault: true}
			case r.FuelOut:
				return implObs{Last: "FUEL", Out: o.Out, Fault: true}
			case r.Err != "":
				return implObs{Last: "ERR " + r.Err, Err: r.Err, Out: o.Out}
			}
			o.Last = r.Canon
		}
	}
	return o
}

type pairItem struct {
	Kind string   `json:"kind"`
	Mode string   `json:"mode"` // full | err+out | must-type-error
	A    []string `json:"a"`
	B    []string `json:"b"`
}

func c12Judge(p pairItem) (sig, detail string, skipped bool) {
	a := runImplOnly(p.A, 200000)
	if strings.HasPrefix(a.Last, "PANIC") {
		return "host-panic:" + p.Kind, fmt.Sprintf("%v: %s", p.A, a.Last), false
	}
	if p.Mode == "must-type-error" {
		if a.Last == "FUEL" {
			return "", "", true
		}
		if a.Err != "type error" && a.Err != "nil error" {
			return "condition-not-checked:" + p.Kind, fmt.Sprintf("%v: a non-boolean condition must be a type error, got %s", p.A, a.Last), false
		}
		return "", "", false
	}
	b := runImplOnly(p.B, 200000)
	if strings.HasPrefix(b.Last, "PANIC") {
		return "host-panic:" + p.Kind, fmt.Sprintf("%v: %s", p.B, b.Last), false
	}
	if a.Fault || b.Fault {
		return "", "", true
	}
	if p.Mode == "full-unless-nil" {
		if a.Last == "nil" {
			return "", "", true // assigning nil is a documented error, a bare nil expression is not
		}
		p.Mode = "full"
	}
	if strings.HasPrefix(p.Kind, "if !c") || strings.HasPrefix(p.Kind, "while !c") {
		// T-nil-bool: the description does not say which error a nil value in a boolean position is
		norm := func(o *implObs) {
			if o.Err == "nil error" {
				o.Err, o.Last = "type error", "ERR type error"
			}
		}
		norm(&a)
		norm(&b)
	}
	same := a.Out == b.Out && a.Err == b.Err
	if p.Mode == "full" {
		same = same && a.Last == b.Last
	}
	if !same {
		return "placement-differs:" + p.Kind, fmt.Sprintf("%s: %v gives %s out %q; %v gives %s out %q", p.Kind, tail(p.A), a.Last, a.Out, tail(p.B), b.Last, b.Out), false
	}
	return "", "", false
}

func tail(s []string) []string {
	if len(s) > 3 {
		return s[len(s)-3:]
	}
	return s
}

func init() {
	core.Register(&core.Check{
		ID:    "C12",
		Level: "exploration",
		Rule: "(also: self-increments by other steps than the int 1, in both operand orders, on globals and parameters, the result divided to tell int from float; every comparison of 8 operands incl. NaN and -Inf under a negation, as a value / through a named intermediate / as a condition / as an argument / in an array / under a further negation) pairs of programs that differ only in a placement selecting another code-generation strategy, for every core expression of at most 3 (quick) / 4 (thorough) nodes over the leaf alphabet {1, 2, 1.5, true, \"ab\", [1, 2], a global, nil} and the operator representatives (failing and non-boolean cores included): used vs discarded; top level vs function tail vs non-tail; last statement of a while / for body vs top level; e op K vs t = e then t op K at operand depth 1..3; e vs id(e) vs [e][0] vs t = e then t; e op e vs t = e then t op t; x = x + 1 vs x = 1 + x vs t = x then x = t + 1 for x global / local / parameter and every kind of value; if !c A else B vs if c B else A; while !c vs while id(!c); every non-boolean value as condition of if, if-else and while in every statement context. " +
			"Oracle (differential, real code only): both members give the same output, the same error class and, where both expose it, the same value; conditions must be type errors. distinct = distinct pair; non-trivial = pairs in which both members ran to a value or a documented error",
		Assumptions: []string{"no reference model: two placements of the same expression on the real pipeline are compared with each other", "pairs in which a member exhausts 200000 VM instructions are skipped and counted"},
		Exec: func(payload string) (string, string) {
			impl.Init()
			var p pairItem
			if err := json.Unmarshal([]byte(payload), &p); err != nil {
				return "harness:bad-payload", err.Error()
			}
			s, d, _ := c12Judge(p)
			return s, d
		},
		Run: c12Run,
	})
}

func c12Run(w *core.W) {
	impl.Init()
	pre := append(preludeTop(), novalDef())
	sessOf := func(stmts ...T) []string { return Texts(append(append([]T{}, pre...), stmts...)...) }
	emit := func(kind, mode string, a, b []T) bool {
		p := pairItem{Kind: kind, Mode: mode, A: sessOf(a...)}
		if b != nil {
			p.B = sessOf(b...)
		}
		key := kind + "\x00" + keyOf(p.A) + "\x00" + keyOf(p.B)
		if !w.Mine(key) {
			return true
		}
		sig, detail, skipped := c12Judge(p)
		if skipped {
			w.Count("skipped_fuel_or_parse", 1)
		} else {
			w.NonTrivial()
		}
		if sig != "" {
			pb, _ := json.Marshal(p)
			w.Fail(string(pb), sig, detail)
		}
		return !w.Expired("time budget reached")
	}
	inFn := func(body ...T) []T {
		return []T{Asg("f", Fn(Ps("p"), Blk(body...))), Call("f", I(2))}
	}
	g := &gen.Grammar{
		Leaves: []T{I(1), I(2), F(1.5), B(true), S("ab"), L(I(1), I(2)), N("gi"), N("u")},
		BinOps: []string{"+", "-", "/", "%", "<", "==", "&"}, UnOps: allUnOps, Calls: []string{"id", "ar"}, Index: true, Slice: true, Lists: true,
	}
	maxN := 3
	if w.Thorough() {
		maxN = 4
	}
	w.Family("core-expression-placements")
	for n := 1; n <= maxN; n++ {
		ok := g.EachExpr(n, func(e T) bool {
			top := []T{e}
			r := emit("used/discarded", "err+out", top, []T{Blk(e, I(7))}) &&
				emit("top/fn-tail", "full", top, inFn(e)) &&
				emit("top/fn-nontail", "err+out", top, inFn(e, I(7))) &&
				emit("fn-tail/fn-tail-after-stmt", "full", inFn(e), inFn(Asg("t", I(1)), e)) &&
				emit("top/while-last", "full", top, []T{Asg("k", I(0)), Wh(Bin("<", N("k"), I(1)), Blk(Asg("k", Bin("+", N("k"), I(1))), e))}) &&
				emit("top/for-last", "full", top, []T{For("i", Call("fromto", I(0), I(1)), e)}) &&
				emit("top/then", "full", top, []T{If(B(true), e)}) &&
				emit("top/else", "full", top, []T{IfE(B(false), I(0), e)}) &&
				emit("fn-tail/fn-then", "full", inFn(e), inFn(If(B(true), e))) &&
				emit("fn-tail/fn-return", "full", inFn(e), inFn(Ret(e))) &&
				emit("e/id(e)", "full", top, []T{Call("id", e)}) &&
				emit("e/[e][0]", "full", top, []T{Ix(L(e), I(0))}) &&
				emit("e/t=e;t", "full-unless-nil", top, []T{Blk(Asg("t", e), N("t"))}) &&
				emit("e op e/t op t", "full", []T{Bin("+", e, e)}, []T{Blk(Asg("t", e), Bin("+", N("t"), N("t")))}) &&
				emit("e == e/t == t", "full", []T{Bin("==", e, e)}, []T{Blk(Asg("t", e), Bin("==", N("t"), N("t")))}) &&
				emit("compound-left + e", "full", []T{Bin("+", Bin("*", I(2), I(3)), e)}, []T{Blk(Asg("t", e), Bin("+", Bin("*", I(2), I(3)), N("t")))}) &&
				emit("compound-left array + e", "full", []T{Bin("+", Bin("+", L(I(9)), L(I(8))), e)}, []T{Blk(Asg("t", e), Bin("+", Bin("+", L(I(9)), L(I(8))), N("t")))}) &&
				emit("compound-left + [..e..]", "full", []T{Bin("+", Bin("*", I(2), I(3)), Un("#", Ix2(S("wxyz"), I(0), e)))}, []T{Blk(Asg("t", e), Bin("+", Bin("*", I(2), I(3)), Un("#", Ix2(S("wxyz"), I(0), N("t")))))}) &&
				emit("(e op e) depth1", "full", []T{Bin("*", Bin("-", e, e), I(1))}, []T{Blk(Asg("t", e), Asg("v", Bin("-", N("t"), N("t"))), Bin("*", N("v"), I(1)))})
			if !r {
				return false
			}
			for _, op := range []string{"+", "-", "<", "=="} {
				for _, k := range []T{I(1), S("ab")} {
					r = emit("e op K depth", "full", []T{Bin(op, e, k)}, []T{Blk(Asg("t", e), Bin(op, N("t"), k))}) &&
						emit("K op e depth", "full", []T{Bin(op, k, e)}, []T{Blk(Asg("t", e), Bin(op, k, N("t")))}) &&
						emit("(e op K) op2 depth2", "full", []T{Bin("*", Bin(op, e, k), I(1))}, []T{Blk(Asg("t", e), Asg("v", Bin(op, N("t"), k)), Bin("*", N("v"), I(1)))}) &&
						emit("((e op K) op2) op3 depth3", "full", []T{Bin("-", Bin("*", Bin(op, e, k), I(1)), I(0))}, []T{Blk(Asg("t", e), Asg("v", Bin(op, N("t"), k)), Asg("z", Bin("*", N("v"), I(1))), Bin("-", N("z"), I(0)))})
					if !r {
						return false
					}
				}
			}
			// e as a condition
			r = emit("if !c/if c swapped", "full", []T{IfE(Un("!", e), I(1), I(2))}, []T{IfE(e, I(2), I(1))}) &&
				emit("if !c/if c swapped (fn)", "full", inFn(IfE(Un("!", e), I(1), I(2))), inFn(IfE(e, I(2), I(1)))) &&
				emit("while !c/while id(!c)", "full",
					[]T{Asg("n", I(0)), Wh(Un("!", e), Blk(Asg("n", Bin("+", N("n"), I(1))), If(Bin(">", N("n"), I(1)), Ret(N("n")))))},
					[]T{Asg("n", I(0)), Wh(Call("id", Un("!", e)), Blk(Asg("n", Bin("+", N("n"), I(1))), If(Bin(">", N("n"), I(1)), Ret(N("n")))))})
			return r
		})
		if !ok {
			return
		}
	}

	w.Family("operand-expressions-right-of-a-compound-operand")
	for _, o := range operands(scTop, true) {
		e := o.E
		ok := emit("compound-left + e", "full", []T{Bin("+", Bin("*", I(2), I(3)), e)}, []T{Blk(Asg("t", e), Bin("+", Bin("*", I(2), I(3)), N("t")))}) &&
			emit("compound-left array + e", "full", []T{Bin("+", Bin("+", L(I(9)), L(I(8))), e)}, []T{Blk(Asg("t", e), Bin("+", Bin("+", L(I(9)), L(I(8))), N("t")))}) &&
			emit("compound-left deep - e", "full", []T{Bin("-", Bin("+", Bin("*", I(2), I(3)), I(1)), e)}, []T{Blk(Asg("t", e), Bin("-", Bin("+", Bin("*", I(2), I(3)), I(1)), N("t")))}) &&
			emit("compound-left string + toa(e)", "full", []T{Bin("+", Bin("+", S("a"), S("b")), Call("toa", e))}, []T{Blk(Asg("t", Call("toa", e)), Bin("+", Bin("+", S("a"), S("b")), N("t")))}) &&
			emit("compound-left < e", "full", []T{Bin("<", Bin("+", I(2), I(3)), e)}, []T{Blk(Asg("t", e), Bin("<", Bin("+", I(2), I(3)), N("t")))})
		if !ok {
			return
		}
	}
	w.Family("composed-expression-contexts")
	{
		inner := []T{I(1), Bin("+", I(1), I(0)), Bin("-", Bin("*", I(1), N("gi")), I(1)), Bin("-", I(3), Bin("*", I(1), N("gi"))), Call("ar", I(1)), Bin("+", L(I(1)), L(I(2)))} // ints are 1: a valid index and slice bound everywhere
		ecs := exprContexts()
		for _, outer := range ecs {
			for _, in := range ecs {
				for _, op := range inner {
					if !emit("outer(inner(e))/t=inner(e);outer(t)", "full-unless-nil", []T{outer.F(in.F(op))}, []T{Blk(Asg("t", in.F(op)), outer.F(N("t")))}) ||
						!emit("outer(inner(e))/t=e;outer(inner(t))", "full-unless-nil", []T{outer.F(in.F(op))}, []T{Blk(Asg("t", op), outer.F(in.F(N("t"))))}) {
						return
					}
				}
			}
		}
	}
	w.Family("increment-forms")
	for _, v := range c05Values() {
		top := func(s ...T) []T { return append([]T{Asg("x", v)}, s...) }
		ok := emit("x=x+1/x=1+x (global)", "full", top(Asg("x", Bin("+", N("x"), I(1))), N("x")), top(Asg("x", Bin("+", I(1), N("x"))), N("x"))) &&
			emit("x=x+1/t=x;x=t+1 (global)", "full", top(Asg("x", Bin("+", N("x"), I(1))), N("x")), top(Asg("t", N("x")), Asg("x", Bin("+", N("t"), I(1))), N("x"))) &&
			emit("x=x+1 used/discarded (global)", "full", top(Asg("x", Bin("+", N("x"), I(1)))), top(Blk(Asg("x", Bin("+", N("x"), I(1))), N("x")))) &&
			emit("x=x+1/x=1+x (param)", "full", []T{Asg("f", Fn(Ps("x"), Blk(Asg("x", Bin("+", N("x"), I(1))), N("x")))), Call("f", v)}, []T{Asg("f", Fn(Ps("x"), Blk(Asg("x", Bin("+", I(1), N("x"))), N("x")))), Call("f", v)}) &&
			emit("x=x+1/t=x;x=t+1 (param)", "full", []T{Asg("f", Fn(Ps("x"), Blk(Asg("x", Bin("+", N("x"), I(1))), N("x")))), Call("f", v)}, []T{Asg("f", Fn(Ps("x"), Blk(Asg("t", N("x")), Asg("x", Bin("+", N("t"), I(1))), N("x")))), Call("f", v)}) &&
			emit("x=x+1/t=x;x=t+1 (function shadowing a global)", "full",
				top(Asg("f", Fn(P, Blk(Asg("x", Bin("+", N("x"), I(1))), N("x")))), Call("f")),
				top(Asg("f", Fn(P, Blk(Asg("t", N("x")), Asg("x", Bin("+", N("t"), I(1))), N("x")))), Call("f"))) &&
			emit("x=1+x/t=x;x=1+t (function shadowing a global)", "full",
				top(Asg("f", Fn(P, Blk(Asg("x", Bin("+", I(1), N("x"))), N("x")))), Call("f")),
				top(Asg("f", Fn(P, Blk(Asg("t", N("x")), Asg("x", Bin("+", I(1), N("t"))), N("x")))), Call("f"))) &&
			emit("x=x+1/t=x;x=t+1 (closure shadowing a captured variable)", "full",
				[]T{Asg("mk", Fn(Ps("x"), Fn(P, Blk(Asg("x", Bin("+", N("x"), I(1))), N("x"))))), Asg("g", Call("mk", v)), L(Call("g"), Call("g"))},
				[]T{Asg("mk", Fn(Ps("x"), Fn(P, Blk(Asg("t", N("x")), Asg("x", Bin("+", N("t"), I(1))), N("x"))))), Asg("g", Call("mk", v)), L(Call("g"), Call("g"))}) &&
			emit("x=x+1 tail/non-tail (local)", "full", []T{Asg("f", Fn(Ps("p"), Blk(Asg("x", N("p")), Asg("x", Bin("+", N("x"), I(1)))))), Call("f", v)}, []T{Asg("f", Fn(Ps("p"), Blk(Asg("x", N("p")), Asg("x", Bin("+", N("x"), I(1))), N("x")))), Call("f", v)}) &&
			emit("x=x+1 in loop/unrolled (local)", "full",
				[]T{Asg("f", Fn(Ps("x"), Blk(Asg("k", I(0)), Wh(Bin("<", N("k"), I(2)), Blk(Asg("x", Bin("+", N("x"), I(1))), Asg("k", Bin("+", N("k"), I(1))))), N("x")))), Call("f", v)},
				[]T{Asg("f", Fn(Ps("x"), Blk(Asg("x", Bin("+", I(1), N("x"))), Asg("x", Bin("+", I(1), N("x"))), N("x")))), Call("f", v)})
		if !ok {
			return
		}
	}

	// self-increments by other steps than the int 1: `x = x + K` must be the addition it says (an increment
	// instruction adds the int 1), so the result is also divided to tell an int from a float
	w.Family("increment-forms-other-steps")
	for _, v := range c05Values() {
		for _, k := range []T{F(1), F(1.5), I(2), I(0), Un("-", I(1)), S("a"), L(I(1)), B(true), N("gi")} {
			show := L(N("x"), Bin("/", N("x"), I(2)))
			top := func(s ...T) []T { return append([]T{Asg("x", v)}, s...) }
			fn := func(body ...T) []T { return []T{Asg("f", Fn(Ps("x"), Blk(body...))), Call("f", v)} }
			ok := emit("x=x+K/t=x;x=t+K (global)", "full", top(Asg("x", Bin("+", N("x"), k)), show), top(Asg("t", N("x")), Asg("x", Bin("+", N("t"), k)), show)) &&
				emit("x=K+x/t=x;x=K+t (global)", "full", top(Asg("x", Bin("+", k, N("x"))), show), top(Asg("t", N("x")), Asg("x", Bin("+", k, N("t"))), show)) &&
				emit("x=x+K/t=x;x=t+K (param)", "full", fn(Asg("x", Bin("+", N("x"), k)), show), fn(Asg("t", N("x")), Asg("x", Bin("+", N("t"), k)), show)) &&
				emit("x=K+x/t=x;x=K+t (param)", "full", fn(Asg("x", Bin("+", k, N("x"))), show), fn(Asg("t", N("x")), Asg("x", Bin("+", k, N("t"))), show)) &&
				emit("x=x-K/t=x;x=t-K (param)", "full", fn(Asg("x", Bin("-", N("x"), k)), show), fn(Asg("t", N("x")), Asg("x", Bin("-", N("t"), k)), show))
			if !ok {
				return
			}
		}
	}
	// a comparison under a negation: as a value, through a named intermediate, as a condition, as an argument.
	// With NaN, the int/float pairs and values of other kinds among the operands.
	w.Family("negated-comparisons")
	{
		vals := []T{Call("aton", S("NaN")), I(1), F(1), F(1.5), S("ab"), L(I(1)), N("gi"), Call("aton", S("-Inf"))}
		for _, op := range []string{"<", "<=", ">", ">=", "==", "!="} {
			for _, a := range vals {
				for _, b := range vals {
					c := Bin(op, a, b)
					neg := Un("!", c)
					ok := emit("!(a op b)/t = a op b; !t", "full", []T{neg}, []T{Blk(Asg("t", c), Un("!", N("t")))}) &&
						emit("!(a op b)/if !(a op b) true else false", "full", []T{neg}, []T{IfE(neg, B(true), B(false))}) &&
						emit("!(a op b)/if a op b false else true", "full", []T{neg}, []T{IfE(c, B(false), B(true))}) &&
						emit("!(a op b)/!id(a op b)", "full", []T{neg}, []T{Un("!", Call("id", c))}) &&
						emit("[!(a op b)][0]/t", "full", []T{Ix(L(neg), I(0))}, []T{Blk(Asg("t", c), Un("!", N("t")))}) &&
						emit("x = !(a op b); x/fn-tail", "full", []T{Blk(Asg("x", neg), N("x"))}, inFn(Asg("t", c), Un("!", N("t")))) &&
						emit("!(a op b) & true/t", "full", []T{Bin("&", neg, B(true))}, []T{Blk(Asg("t", c), Bin("&", Un("!", N("t")), B(true)))}) &&
						emit("!!(a op b)/a op b", "full", []T{Un("!", neg)}, []T{Blk(Asg("t", c), N("t"))})
					if !ok {
						return
					}
				}
			}
		}
	}

	w.Family("non-boolean-conditions")
	for _, v := range c05Values() {
		if _, isBool := v.(node.Bool); isBool {
			continue
		}
		conds := []T{v, Bin("+", v, v), Call("id", v), Ix(L(v), I(0))}
		for ci, c := range conds {
			if ci == 1 {
				continue // v + v may legitimately fail earlier with another class, or be a boolean-free value; covered by core placements
			}
			for _, sc := range stmtContexts() {
				for _, form := range []T{If(c, I(5)), IfE(c, I(5), I(6)), Wh(c, Ret(I(5))), If(Un("!", c), I(5)), Blk(If(c, I(5)), I(7))} {
					if !emit("condition:"+sc.Name, "must-type-error", sc.F(form), nil) {
						return
					}
				}
			}
		}
	}
}

var _ = sess.Options{}
