package checks

import (
	"fmt"
	"os"
	"os/exec"
	"path/filepath"
	"regexp"
	"strings"
	"time"

	"github.com/paulsonkoly/calc/lexer"
	"github.com/paulsonkoly/calc/parser"
	"github.com/paulsonkoly/calc/types/node"

	"vharness/internal/core"
	"vharness/internal/gen"
	"vharness/internal/impl"
)

// C06: the front end is total.

var c06Alphabet = []string{"1", "a", " ", "\n", "\"", "\\", ";", "+", "(", ")", "{", "}", "[", ".", "=", "£"}

var c06Tokens = []string{"if", "else", "while", "for", "return", "yield", "true", "a", "1", "1.5", "\"s\"", "(", ")", "{", "}", "[", "]", ",", ":", "->", "<-", "=", "+", "-", "==", "!", "\n"}

var caretLine = regexp.MustCompile(`^ *\^~*\^$`)

type c06State struct {
	s *impl.Session
}

func (st *c06State) session() *impl.Session {
	if st.s == nil || st.s.Dead {
		st.s = impl.NewSession()
	}
	return st.s
}

// c06Judge checks one input text. accepted: the parser returned trees and no error.
func c06Judge(st *c06State, in string) (sig, detail string, accepted bool) {
	pr := impl.Parse(in, impl.ParseFuel(len(in)))
	q := fmt.Sprintf("%q", clipStr(in, 200))
	if pr.Panic != "" {
		return "front-end-panic@" + pr.PanicSite, q + ": parser.Parse aborted the host: " + pr.Panic + " in " + pr.PanicSite, false
	}
	if pr.FuelOut != "" {
		return "front-end-hang", fmt.Sprintf("%s: parser.Parse did not finish within %d lexer/parser steps", q, impl.ParseFuel(len(in))), false
	}
	if pr.Err == "" {
		return "", "", true
	}
	if pr.From < 0 || pr.To < pr.From || pr.To > len(in) {
		return "error-span-outside-input", fmt.Sprintf("%s: error %q has span [%d,%d), input length %d", q, pr.Err, pr.From, pr.To, len(in)), false
	}
	// the error report
	_, perr := parser.Parse(in)
	rep, pan := captureReport(func() { node.VerifReportError(perr, in) })
	if pan != "" {
		return "report-panic:" + pan, q + ": displaying the error failed: " + pan, false
	}
	lines := strings.Split(strings.TrimSuffix(rep, "\n"), "\n")
	if len(lines) < 3 || lines[0] != strings.Split(perr.Message(), "\n")[0] || !caretLine.MatchString(lines[len(lines)-1]) {
		return "report-shape", fmt.Sprintf("%s: the report is not message / source line / caret line: %q", q, rep), false
	}
	// the erroneous input must not execute anything
	s := st.session()
	csLen, dsLen := len(*s.CR.CS), len(*s.CR.DS)
	globals := len(s.M.VerifGlobals())
	out, pan := captureReport(func() { node.VerifProcessInput(in, parser.Type{}, s.VM, true) })
	if pan != "" {
		st.s = nil
		return "process-input-panic:" + pan, q + ": processInput failed: " + pan, false
	}
	if len(*s.CR.CS) != csLen || len(*s.CR.DS) != dsLen || len(s.M.VerifGlobals()) != globals || out != rep {
		st.s = nil
		return "executed-despite-error", fmt.Sprintf("%s: a parse error was reported but code=%d→%d data=%d→%d globals=%d→%d output %q (report alone is %q)", q, csLen, len(*s.CR.CS), dsLen, len(*s.CR.DS), globals, len(s.M.VerifGlobals()), out, rep), false
	}
	return "", "", false
}

func clipStr(s string, n int) string {
	if len(s) > n {
		return s[:n/2] + "…" + s[len(s)-n/2:]
	}
	return s
}

func captureReport(f func()) (out string, pan string) {
	impl.CaptureBegin()
	defer func() {
		lexer.VerifTick = nil
		if r := recover(); r != nil {
			pan = fmt.Sprint(r) + " @" + impl.PanicSite()
			pan = strings.Split(pan, "\n")[0]
		}
		out = impl.CaptureEnd()
	}()
	f()
	return
}

func init() {
	core.Register(&core.Check{
		ID:    "C06",
		Level: "exploration",
		Rule: "(i) all strings over a 16-symbol alphabet {1 a blank newline \" \\ ; + ( ) { } [ . = £} up to length 5 (quick) / 6 (thorough); (ii) all token sequences over a 27-token alphabet (keywords, literals, brackets, separators, operators, newline) up to length 4 (quick) / 5 (thorough); (iii) scaling families: integer literals of 1..40 digits, floats up to 400 digits, every bracket kind nested 1..200, 1000, 10000 deep, a valid program truncated at every position and continued by an unterminated string / comment / escape or an invalid byte, empty input; (iv) marker statements followed by a syntax error through the built cmd/calc binary in -eval, file and piped-REPL mode. " +
			"Each input: parser.Parse under lexer+parser fuel must return without panic; a reported error must have a span inside the input, reportError must print message/source/caret without failing, and processInput must leave code, data, globals and output (apart from the report) untouched. distinct = distinct input; non-trivial = inputs of at least 2 tokens/characters that reach the parser (no lexer error)",
		Assumptions: []string{
			"fuel: lexer loop iterations + TLexer.Next + TLexer.Snapshot calls, budget 2000 per input byte (measured maximum on the grammar: about 50 per byte)",
			"resource exhaustion of the host (Go stack on nesting deeper than 10000) is outside the bound",
		},
		NeedsCalcBinary: true,
		Exec: func(payload string) (string, string) {
			impl.Init()
			p := stmtsOf(payload)
			if len(p) == 2 && p[0] == "binary" {
				return c06BinaryItem(ensureCalcBinary(), strings.TrimPrefix(p[1], "-eval "))
			}
			s, d, _ := c06Judge(&c06State{}, p[0])
			return s, d
		},
		Run: c06Run,
	})
}

func c06Run(w *core.W) {
	impl.Init()
	st := &c06State{}
	n := 0
	judge := func(in string) bool {
		if !w.Mine(in) {
			return true
		}
		sig, detail, accepted := c06Judge(st, in)
		if sig != "" {
			w.Fail(payloadOf([]string{in}), sig, detail)
		}
		if accepted {
			w.Count("accepted", 1)
		} else if sig == "" {
			w.Count("rejected_with_error_report", 1)
		}
		if len(in) >= 2 {
			w.NonTrivial()
		}
		n++
		return n%2048 != 0 || !w.Expired("time budget reached")
	}

	// (iii) scaling families first (small)
	w.Family("scaling")
	{
		judge("")
		for k := 1; k <= 40; k++ {
			judge(strings.Repeat("9", k))
			judge("x = " + strings.Repeat("9", k) + " + 1")
		}
		for _, k := range []int{1, 10, 100, 300, 308, 309, 310, 400} {
			judge("1" + strings.Repeat("0", k) + ".5")
			judge("0." + strings.Repeat("0", k) + "1")
		}
		depths := []int{}
		for d := 1; d <= 200; d++ {
			depths = append(depths, d)
		}
		depths = append(depths, 1000, 10000)
		for _, d := range depths {
			judge(strings.Repeat("(", d) + "1" + strings.Repeat(")", d))
			judge(strings.Repeat("[", d) + "1" + strings.Repeat("]", d))
			judge(strings.Repeat("f(", d) + "1" + strings.Repeat(")", d))
			judge(strings.Repeat("(", d) + "1")
			judge(strings.Repeat("[", d))
			judge(strings.Repeat("{\n", d))
			judge(strings.Repeat("if true {\n", d) + "1" + strings.Repeat("\n}", d))
			judge(strings.Repeat("() -> ", d) + "1")
			judge(strings.Repeat("-", d) + "1")
			judge(strings.Repeat("- ", d) + "1")
		}
		prog := "f = (a, b) -> {\n  x = [1, \"s\"] + a[0:1]\n  if !(x == b) return 1.5 else yield x\n}\nfor i <- f(1, 2) write(i) ; c"
		for i := 0; i <= len(prog); i++ {
			judge(prog[:i])
			for _, tail := range []string{"\"abc", "; note", "\"ab\\", "\xff", "\x00", "\x00 1", "£", "\\", "\"\\", "1.", "A"} {
				judge(prog[:i] + tail)
				judge(prog[:i] + tail + prog[i:])
			}
		}
	}

	// (ii) token sequences
	w.Family("token-sequences")
	maxTok := 4
	if w.Thorough() {
		maxTok = 5
	}
	ok := true
	gen.Seqs(len(c06Tokens), 0, maxTok, func(seq []int) bool {
		parts := make([]string, len(seq))
		for i, x := range seq {
			parts[i] = c06Tokens[x]
		}
		ok = judge(strings.Join(parts, " "))
		return ok
	})
	if !ok {
		return
	}

	// (i) strings
	w.Family("strings")
	maxLen := 5
	if w.Thorough() {
		maxLen = 6
	}
	gen.Seqs(len(c06Alphabet), 0, maxLen, func(seq []int) bool {
		var b strings.Builder
		for _, x := range seq {
			b.WriteString(c06Alphabet[x])
		}
		ok = judge(b.String())
		return ok
	})
	if !ok {
		return
	}

	// (iv) through the built binary
	if w.CalcBinary != "" {
		c06Binary(w)
	}
}

// c06Binary: marker statements followed by a syntax error must not execute in any mode.
func c06Binary(w *core.W) {
	w.Family("binary-modes")
	markers := []string{"write(7)", "x = 1\nwrite(7)", "{\nwrite(7)\n}"}
	garbage := []string{" )", "\n)", " 1 2 +", "\n1 +", " £", " \"open", "\n}", " else 1"}
	for _, m := range markers {
		for _, g := range garbage {
			in := m + g
			pr := impl.Parse(in, impl.ParseFuel(len(in)))
			if pr.Err == "" {
				continue // not an erroneous input after all
			}
			if strings.Contains(m, "\n") {
				continue // -eval takes a single line; multi-line inputs are C16's subject
			}
			key := "-eval " + in
			if !w.Mine(key) {
				continue
			}
			w.NonTrivial()
			calcBinaryPath = w.CalcBinary
			if sig, detail := c06BinaryItem(w.CalcBinary, in); sig != "" {
				w.Fail(payloadOf([]string{"binary", key}), sig, detail)
			}
		}
	}
}

func c06BinaryItem(bin, in string) (sig, detail string) {
	pr := impl.Parse(in, impl.ParseFuel(len(in)))
	out, err := runCalc(bin, "", "-eval", in)
	if err != nil {
		return binarySig(err, "-eval"), fmt.Sprintf("calc -eval %q: %v", in, err)
	}
	if strings.Contains(out, "panic:") || strings.Contains(out, "fatal error:") {
		return "binary-abort:-eval", fmt.Sprintf("calc -eval %q aborted: %q", in, clipStr(out, 400))
	}
	if pr.Err != "" && strings.Contains(out, "7") && !strings.Contains(pr.Err, "7") {
		return "executed-despite-error:-eval", fmt.Sprintf("calc -eval %q reports a parse error (%s) and still writes 7: output %q", in, pr.Err, out)
	}
	return "", ""
}

var calcBinaryPath string

// ensureCalcBinary builds /repo/cmd/calc once per process when no runner-built binary is known (replay mode).
func ensureCalcBinary() string {
	if calcBinaryPath != "" {
		return calcBinaryPath
	}
	dir, err := os.MkdirTemp("", "vcheck-calc-")
	if err != nil {
		panic(err)
	}
	bin := filepath.Join(dir, "calc")
	cmd := exec.Command("go", "build", "-o", bin, "./cmd/calc")
	cmd.Dir = core.RepoDir()
	cmd.Env = append(os.Environ(), "GOFLAGS=-mod=mod", "GOPROXY=off", "GOSUMDB=off", "GOTOOLCHAIN=local")
	if out, err := cmd.CombinedOutput(); err != nil {
		panic(fmt.Sprintf("building cmd/calc failed: %v %s", err, out))
	}
	calcBinaryPath = bin
	return bin
}

// errBinaryStuck: the built binary was still running after 120 s on an input the in-process run finishes in
// milliseconds within its instruction fuel.
var errBinaryStuck = fmt.Errorf("calc binary did not finish within 120 s")

// binarySig names the failure of a run of the built binary: not finishing is a failure of the item, anything else
// (cannot start, cannot write the script) is the harness's problem.
func binarySig(err error, mode string) string {
	if err == errBinaryStuck {
		return "binary-does-not-finish:" + mode
	}
	return "harness:cannot-run-binary"
}

// runCalc runs the built binary; a run that is still going after 120 s is killed (errBinaryStuck).
func runCalc(bin, stdin string, args ...string) (string, error) {
	cmd := exec.Command(bin, args...)
	cmd.Stdin = strings.NewReader(stdin)
	done := make(chan struct{})
	var out []byte
	var err error
	go func() { out, err = cmd.CombinedOutput(); close(done) }()
	select {
	case <-done:
	case <-time.After(120 * time.Second):
		cmd.Process.Kill()
		<-done
		return string(out), errBinaryStuck
	}
	if _, ok := err.(*exec.ExitError); ok {
		err = nil
	}
	return string(out), err
}
