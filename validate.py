#!/usr/bin/env python3
"""Validates MANIFEST.json and every evidence file against the schemas (run with python3-vt)."""
import json, glob, sys, jsonschema
ok = True
def chk(path, schema):
    global ok
    try:
        jsonschema.validate(json.load(open(path)), json.load(open(schema)))
    except Exception as e:
        ok = False
        print("INVALID", path, str(e)[:300])
chk('/verif/MANIFEST.json', '/root/.vp/MANIFEST.schema.json')
for f in sorted(glob.glob('/verif/evidence/*.json')):
    chk(f, '/root/.vp/EVIDENCE.schema.json')
print("valid" if ok else "FAILED")
sys.exit(0 if ok else 1)
