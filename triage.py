#!/usr/bin/env python3
"""Summarises a VERIF_DUMP_FAILURES file by signature (triage helper)."""
import json,collections,sys
fs=json.load(open(sys.argv[1]))
n=int(sys.argv[2]) if len(sys.argv)>2 else 3
fs=fs or []
c=collections.Counter(f['sig'] for f in fs)
for s,cnt in c.most_common():
    print(cnt,s)
    k=0
    for f in fs:
        if f['sig']==s and k<n:
            print('     W:',f['witness'][:300]); print('        ',f['detail'][:400]); k+=1
