package checks

import (
	"encoding/json"
	"fmt"
	"math"
	"os"
	"os/exec"
	"path/filepath"
	"strconv"
	"strings"
	"vharness/internal/sess"

	"vharness/internal/core"
	"vharness/internal/impl"
	"vharness/internal/refsem"
)

// C17: built-in functions keep their contracts for every argument.

func c17Values() []refsem.Val {
	base := c11Values()
	out := []refsem.Val{}
	for _, v := range base {
		if v.K != refsem.KNil { // nil cannot be bound to a variable
			out = append(out, v)
		}
	}
	A := func(v ...refsem.Val) refsem.Val { return refsem.Val{K: refsem.KArr, A: append([]refsem.Val{}, v...)} }
	fn := refsem.Val{K: refsem.KFn}
	out = append(out,
		A(A(A(refsem.Int(1), refsem.Str("x")), refsem.Float(2.5)), refsem.Bool(true)),
		A(refsem.Str(""), refsem.Str("a b"), refsem.Str("[1, 2]")),
		A(fn, A(fn), refsem.Float(math.Inf(1)), refsem.Float(-0.0)),
		refsem.Str("line\nbreak"), refsem.Str("quote\"d"), refsem.Str("1e5"), refsem.Str("  7"),
		refsem.Float(1e21), refsem.Float(1e-7), refsem.Float(123456789.125), refsem.Float(5e-324), refsem.Float(math.MaxFloat64),
	)
	return out
}

func c17Floats() []float64 {
	fs := []float64{0, 0.5, 0.1, 0.2, 0.3, 1.0 / 3, 2.5, 100, 1e15, 1e16, 1e20, 1e21, 1e22, 1e100, 1e-5, 1e-7, 1e-300, 5e-324, math.MaxFloat64, math.SmallestNonzeroFloat64, 123456.789, 9007199254740993, 0.000001, 1.7976931348623157e308}
	for e := -30; e <= 62; e += 4 {
		fs = append(fs, math.Ldexp(1, e), math.Ldexp(3, e), -math.Ldexp(5, e))
	}
	for i := 1; i <= 30; i++ {
		fs = append(fs, float64(i)/7, float64(i)*1.1, -float64(i)/1000)
	}
	return fs
}

func c17Ints() []int {
	return []int{0, 1, -1, 7, 10, 99, 100, 12345, -12345, 1 << 31, 1 << 32, 1<<53 + 1, math.MaxInt64, math.MinInt64, math.MaxInt64 - 1, math.MinInt64 + 1}
}

type c17Item struct {
	Kind string `json:"kind"`
	A    int    `json:"a"`
	B    int    `json:"b"`
	S    string `json:"s,omitempty"`
}

// runWithGlobal runs statements on a fresh VM in which the global x is bound to v.
func runWithGlobal(v *refsem.Val, stmts ...string) (obs []string) {
	s := impl.NewSession()
	if v != nil {
		s.M.SetGlobal("x", impl.FromRef(*v))
	}
	for _, src := range stmts {
		pr := impl.ParseCached(src)
		if pr.Err != "" || pr.Panic != "" {
			return append(obs, "PARSE "+pr.Err+pr.Panic)
		}
		for _, t := range pr.Trees {
			if s.Dead {
				return append(obs, "DEAD")
			}
			r := s.RunTree(t, 2000000)
			obs = append(obs, r.Observed())
		}
	}
	return obs
}

func c17Judge(it c17Item) (sig, detail string) {
	q := strconv.Quote
	switch it.Kind {
	case "toa-write":
		v := c17Values()[it.A]
		want := v.String()
		obs := runWithGlobal(&v, "toa(x)", "write(x)", "toa(x) == toa(x)", "write(toa(x))")
		exp := []string{"s:" + q(want) + ` | ""`, "nil | " + q(want), `b:true | ""`, "nil | " + q(want)}
		for i := range exp {
			if i >= len(obs) || obs[i] != exp[i] {
				return "toa-write", fmt.Sprintf("x = %s: statement %d gives %v, the contract gives %s", v.Canon(), i, obs, exp[i])
			}
		}
	case "aton-toa-int":
		n := c17Ints()[it.A]
		v := refsem.Int(n)
		obs := runWithGlobal(&v, "aton(toa(x))", "aton(toa(x)) == x", "toa(aton(toa(x)))")
		exp := []string{v.Canon() + ` | ""`, `b:true | ""`, "s:" + q(strconv.Itoa(n)) + ` | ""`}
		for i := range exp {
			if i >= len(obs) || obs[i] != exp[i] {
				return "aton-toa", fmt.Sprintf("int %d: gives %v, the contract gives %v", n, obs, exp)
			}
		}
	case "aton-toa-float":
		f := c17Floats()[it.A]
		v := refsem.Float(f)
		obs := runWithGlobal(&v, "aton(toa(x)) == x", "aton(toa(x)) - x")
		// a float whose rendering is an integer numeral reads back as an int of the same value: == still holds
		if len(obs) < 2 || obs[0] != `b:true | ""` {
			return "aton-toa", fmt.Sprintf("float %v (printed %s): aton(toa(x)) == x gives %v", f, v.String(), obs)
		}
	case "fromto":
		a, b := it.A, it.B
		want := []string{}
		for i := a; i < b; i++ {
			want = append(want, "i:"+strconv.Itoa(i))
		}
		obs := runWithGlobal(nil, "r = []", fmt.Sprintf("for i <- fromto(%s, %s) r = r + [i]", intExpr(a), intExpr(b)), "r")
		exp := "a:[" + strings.Join(want, ",") + `] | ""`
		if len(obs) != 3 || obs[2] != exp {
			return "fromto", fmt.Sprintf("fromto(%d, %d) yields %v, the contract gives %s", a, b, obs, exp)
		}
	case "elems-indices":
		v := c17Containers()[it.A]
		n := len(v.A)
		if v.K == refsem.KStr {
			n = len(v.S)
		}
		el, ix := []string{}, []string{}
		for i := 0; i < n; i++ {
			e, _ := refsem.Index1(v, refsem.Int(i))
			el = append(el, e.Canon())
			ix = append(ix, "i:"+strconv.Itoa(i))
		}
		// B > 0: the program first binds another built-in's name (or the names the built-ins use inside) to
		// something of its own; the built-ins that are still the originals keep their contracts
		rebound := c17Rebinds[it.B]
		pre := "rebound = 0"
		switch rebound {
		case "":
		case "GLOBALS":
			pre = "{\n  a = \"ga\"\n  b = \"gb\"\n  i = \"gi\"\n  v = \"gv\"\n  e = \"ge\"\n}"
		default:
			pre = rebound + " = (p, q, s) -> 7"
		}
		eStmt, iStmt, zStmt := "for e <- elems(x) r = r + [e]", "for k <- indices(x) r = r + [k]", "for k, e <- indices(x), elems(x) r = r + [x[k] == e]"
		if rebound == "elems" {
			eStmt, zStmt = "r = "+"["+strings.Join(c17Lits(el), ", ")+"]", "for k <- indices(x) r = r + [k]"
		}
		if rebound == "indices" {
			iStmt, zStmt = "for k <- fromto(0, #x) r = r + [k]", "for e <- elems(x) r = r + [e]"
		}
		obs := runWithGlobal(&v, pre, "r = []", eStmt, "r", "r = []", iStmt, "r", "r = []", zStmt, "#r")
		if len(obs) != 10 || (rebound != "elems" && obs[3] != "a:["+strings.Join(el, ",")+`] | ""`) || obs[6] != "a:["+strings.Join(ix, ",")+`] | ""` || obs[9] != fmt.Sprintf(`i:%d | ""`, n) {
			return "elems-indices", fmt.Sprintf("x = %s, after `%s`: observations %v", v.Canon(), strings.ReplaceAll(pre, "\n", " "), obs)
		}
	case "recycling":
		// the built-in generators inside one function body: a user generator looping over a built-in one is abandoned
		// (A), ordinary loops reuse what it gave back (B times), then K built-in generators run at once (zip or nested)
		o := sess.Compare(c17RecyclingProgram(it.A, it.B, it.S), sess.Options{})
		if o.Sig != "" {
			return "builtin-generators-after-recycling:" + o.Sig, o.Detail
		}
	case "wrong-args":
		obs := runWithGlobal(nil, it.S)
		if len(obs) != 1 || !strings.HasPrefix(obs[0], "ERR ") {
			return "wrong-arguments-accepted", fmt.Sprintf("`%s` must be a runtime error, got %v", it.S, obs)
		}
	case "read", "exit", "read-keep":
		return c17Binary(ensureCalcBinary(), it)
	}
	return "", ""
}

func c17RecyclingProgram(abandon, reuse int, shape string) []string {
	var b strings.Builder
	b.WriteString("run = () -> {\n  r = []\n")
	switch abandon {
	case 0: // the other iterator of a zip ends first
		b.WriteString("  for a, b <- gen(), fromto(0, 2) r = r + [[a, b]]\n")
	case 1: // return from the body, inside a helper
		b.WriteString("  r = r + [firstover(3)]\n")
	case 2: // a generator over elems, abandoned by a shorter indices
		b.WriteString("  for a, b <- gene(), indices(\"xy\") r = r + [[a, b]]\n")
	case 3: // nothing abandoned
	}
	for i := 0; i < reuse; i++ {
		b.WriteString("  for a, b <- fromto(0, 3), fromto(10, 13) r = r + [[a, b]]\n")
	}
	switch shape {
	case "zip3":
		b.WriteString("  for a, b, c <- fromto(0, 3), fromto(10, 13), fromto(20, 23) r = r + [[a, b, c]]\n")
	case "nest3":
		b.WriteString("  for a <- fromto(0, 2) for b <- elems(\"pq\") for c <- indices([7, 8]) r = r + [[a, b, c]]\n")
	case "zip2-in-loop":
		b.WriteString("  for a <- fromto(0, 2) for b, c <- elems([4, 5, 6]), indices(\"xyz\") r = r + [[a, b, c]]\n")
	case "zip4":
		b.WriteString("  for a, b, c, d <- fromto(0, 3), elems(\"abc\"), indices([1, 2, 3]), fromto(5, 9) r = r + [[a, b, c, d]]\n")
	}
	b.WriteString("  r\n}")
	return []string{
		"gen = () -> for i <- fromto(0, 10) yield i",
		"gene = () -> for e <- elems(\"abcdef\") yield e",
		"firstover = (k) -> for v <- gen() if v > k return v",
		b.String(), "run()", "run()",
	}
}

// c17Rebinds: names a program may bind before it uses elems / indices (index 0: none).
var c17Rebinds = []string{"", "fromto", "indices", "elems", "toa", "aton", "write", "read", "exit", "GLOBALS"}

// c17Lits is a placeholder list of as many literals as there are elements (used when elems itself is rebound).
func c17Lits(el []string) []string {
	out := make([]string, len(el))
	for i := range out {
		out[i] = "0"
	}
	return out
}

func intExpr(n int) string {
	if n < 0 {
		if n == math.MinInt64 {
			return "(0 - 9223372036854775807 - 1)"
		}
		return "(0 - " + strconv.Itoa(-n) + ")"
	}
	return strconv.Itoa(n)
}

func c17Containers() []refsem.Val {
	cs, _ := c11IndexDomain()
	out := []refsem.Val{}
	for _, c := range cs {
		if c.K == refsem.KArr || c.K == refsem.KStr {
			out = append(out, c)
		}
	}
	return out
}

var c17StdinLines = []string{"a", "", strings.Repeat("z", 5000), "two words"}

// c17Binary: read() and exit() through the built binary.
func c17Binary(bin string, it c17Item) (sig, detail string) {
	switch it.Kind {
	case "read-keep":
		// it.A lines of it.B characters each are read into an array first and written out afterwards: a line the
		// program keeps must still be the line it read after any number of further reads
		var in, want strings.Builder
		for i := 0; i < it.A; i++ {
			l := fmt.Sprintf("%d:", i) + strings.Repeat(string(rune('a'+i%26)), it.B)
			in.WriteString(l + "\n")
			want.WriteString("<" + l + "\n>") // read() hands the line over with its line break
		}
		prog := fmt.Sprintf("ls = []\nfor i <- fromto(0, %d) ls = ls + [read()]\nfirst = ls[0]\nfor l <- elems(ls) write(\"<\" + l + \">\")\nwrite(\"|\" + first + \"|\")\n", it.A)
		fn := filepath.Join(c16ScratchDir(), fmt.Sprintf("readkeep-%d.calc", os.Getpid()))
		if err := os.WriteFile(fn, []byte(prog), 0o644); err != nil {
			return "harness:scratch-file", err.Error()
		}
		out, err := runCalc(bin, in.String(), fn)
		if err != nil {
			return binarySig(err, "read"), fmt.Sprintf("%d lines of %d characters read and kept: %v", it.A, it.B, err)
		}
		if strings.Contains(out, "panic:") || strings.Contains(out, "fatal error:") {
			return "binary-abort:read", clipStr(out, 300)
		}
		if exp := want.String() + "|0:" + strings.Repeat("a", it.B) + "\n|"; out != exp {
			i := 0
			for i < len(out) && i < len(exp) && out[i] == exp[i] {
				i++
			}
			return "read-line-changes-after-later-reads", fmt.Sprintf("%d lines of %d characters read into an array, then written: the output differs from the input at byte %d: got %q, the lines read were %q", it.A, it.B, i, clipStr(out[i:], 80), clipStr(exp[i:], 80))
		}
		return "", ""
	case "read":
		// it.S encodes: mode|final newline|line indices|number of reads
		var spec struct {
			Mode  string
			Final bool
			Lines []int
			Reads int
			Fail  int // a statement ending in a runtime error is placed before this read (0: none)
		}
		json.Unmarshal([]byte(it.S), &spec)
		lines := []string{}
		for _, x := range spec.Lines {
			lines = append(lines, c17StdinLines[x])
		}
		stdin := strings.Join(lines, "\n")
		if spec.Final && len(lines) > 0 {
			stdin += "\n"
		}
		// the program echoes every line read between markers
		var prog strings.Builder
		for i := 0; i < spec.Reads; i++ {
			if spec.Fail > 0 && i == spec.Fail {
				prog.WriteString("x = [1, 2, 3][7]\n")
			}
			prog.WriteString("write(\"<\" + read() + \">\")\n")
		}
		prog.WriteString("write(\"END\")\n")
		want := ""
		ok := true
		for i := 0; i < spec.Reads; i++ {
			switch {
			case i < len(lines)-1 || (i == len(lines)-1 && spec.Final):
				want += "<" + lines[i] + "\n>"
			case i == len(lines)-1 && lines[i] != "":
				want += "<" + lines[i] + ">" // a last line without line break is still a line of input
			default:
				ok = false // reading past the end of input: a read error
			}
			if !ok {
				break
			}
		}
		var out string
		var err error
		if spec.Fail > 0 && spec.Fail < spec.Reads {
			if !ok {
				return "", "" // reading past the end of input is covered without the failing statement
			}
			// the failing statement's report (first line) appears between the echoes; a block in -eval ends there
			if spec.Mode == "-eval" {
				return "", ""
			}
			marker := "RUNTIME ERROR : index error\n"
			// insert after the echoes of the reads before it
			cut := 0
			for i := 0; i < spec.Fail && i < len(lines); i++ {
				if i < len(lines)-1 || spec.Final {
					cut += len("<" + lines[i] + "\n>")
				} else if lines[i] != "" {
					cut += len("<" + lines[i] + ">")
				}
			}
			if cut <= len(want) {
				want = want[:cut] + marker + want[cut:]
			}
		}
		if spec.Mode == "-eval" {
			body := "{\n" + strings.ReplaceAll(prog.String(), "\n", "\n") + "}"
			out, err = runCalc(bin, stdin, "-eval", body)
			if ok {
				want += "END" + "nil\n"
			}
		} else {
			dir, _ := os.MkdirTemp("", "vcheck-c17-")
			defer os.RemoveAll(dir)
			fn := filepath.Join(dir, "p.calc")
			os.WriteFile(fn, []byte(prog.String()), 0o644)
			out, err = runCalc(bin, stdin, fn)
			if ok {
				want += "END"
			}
		}
		if err != nil {
			return binarySig(err, "read"), fmt.Sprintf("stdin %q, %d read() calls in %s mode: %v", clipStr(stdin, 60), spec.Reads, spec.Mode, err)
		}
		if strings.Contains(out, "panic:") || strings.Contains(out, "fatal error:") {
			return "binary-abort:read", clipStr(out, 300)
		}
		got := stripReports(out)
		if ok {
			if got != want {
				return "read-loses-input", fmt.Sprintf("stdin %q, %d read() calls in %s mode: output %q, the contract gives %q", clipStr(stdin, 60), spec.Reads, spec.Mode, clipStr(got, 200), clipStr(want, 200))
			}
		} else if !strings.HasPrefix(got, want) || !strings.Contains(got, "RUNTIME ERROR : read error") {
			return "read-past-end", fmt.Sprintf("stdin %q, %d read() calls in %s mode: output %q, expected %q followed by a read error", clipStr(stdin, 60), spec.Reads, spec.Mode, clipStr(got, 200), clipStr(want, 200))
		}
	case "exit":
		cmd := exec.Command(bin, "-eval", it.S)
		outb, _ := cmd.CombinedOutput()
		code := cmd.ProcessState.ExitCode()
		out := string(outb)
		if it.A >= 0 {
			if code != it.A || strings.Contains(out, "RUNTIME ERROR") {
				return "exit-code", fmt.Sprintf("`%s`: exit status %d output %q, the contract gives status %d", it.S, code, clipStr(out, 200), it.A)
			}
		} else if !strings.Contains(out, "RUNTIME ERROR : type error") || code != 0 {
			return "exit-wrong-argument", fmt.Sprintf("`%s`: exit status %d output %q, the contract gives a type error (and the interpreter goes on)", it.S, code, clipStr(out, 200))
		}
	}
	return "", ""
}

func init() {
	core.Register(&core.Check{
		ID:    "C17",
		Level: "exploration",
		Rule: "toa(x) against write(x) for every value of a 57-value alphabet (all kinds, boundary ints, floats incl. ±Inf, NaN, -0, subnormal and max, strings with quotes and line breaks, arrays nested to depth 3 containing functions) bound to a global; aton(toa(n)) == n for 16 boundary ints and 210 finite floats (powers of two, decimal fractions, subnormal, max); fromto(a, b) for all a, b in -3..3 and around 2^63-1 and -2^63; elems / indices (alone and zipped) over every array and string of length 0..4, also after the program bound another built-in's name or the names a, b, i, v, e to values of its own; wrong kinds and arities for all eight built-ins; fromto / elems / indices running three and four at once (zip, nesting) after a user generator over a built-in one was abandoned and its contexts reused; through the built binary: every stdin of <= 3 lines from {\"a\", \"\", 5000 characters, \"two words\"} with and without final line break x 0..4 read() calls in -eval and file mode (in file mode also with a statement that ends in a runtime error between any two reads), 3..1500 lines of 1..5000 characters read into an array and written afterwards (a kept line never changes), and exit() with int, boundary and non-int arguments. " +
			"Oracle: the stated contracts computed by the reference model. distinct = distinct item; non-trivial = all but the empty-input cases",
		Assumptions:     []string{"values are injected with the exported memory.SetGlobal", "a last input line without line break counts as a line; reading past the end of input is the read error"},
		NeedsCalcBinary: true,
		Exec: func(payload string) (string, string) {
			impl.Init()
			var it c17Item
			if err := json.Unmarshal([]byte(payload), &it); err != nil {
				return "harness:bad-payload", err.Error()
			}
			return c17Judge(it)
		},
		Run: c17Run,
	})
}

func c17Run(w *core.W) {
	impl.Init()
	calcBinaryPath = w.CalcBinary
	emit := func(it c17Item) bool {
		b, _ := json.Marshal(it)
		if !w.Mine(string(b)) {
			return true
		}
		w.NonTrivial()
		if sig, detail := c17Judge(it); sig != "" {
			w.Fail(string(b), sig, detail)
		}
		return !w.Expired("time budget reached")
	}
	w.Family("toa-write")
	for i := range c17Values() {
		if !emit(c17Item{Kind: "toa-write", A: i}) {
			return
		}
	}
	w.Family("aton-toa")
	for i := range c17Ints() {
		if !emit(c17Item{Kind: "aton-toa-int", A: i}) {
			return
		}
	}
	for i := range c17Floats() {
		if !emit(c17Item{Kind: "aton-toa-float", A: i}) {
			return
		}
	}
	w.Family("fromto")
	for a := -3; a <= 3; a++ {
		for b := -3; b <= 3; b++ {
			if !emit(c17Item{Kind: "fromto", A: a, B: b}) {
				return
			}
		}
	}
	for _, p := range [][2]int{{math.MaxInt64 - 2, math.MaxInt64}, {math.MaxInt64 - 1, math.MaxInt64}, {math.MaxInt64, math.MaxInt64}, {math.MaxInt64, math.MaxInt64 - 1}, {math.MinInt64, math.MinInt64 + 2}, {math.MinInt64 + 1, math.MinInt64}} {
		if !emit(c17Item{Kind: "fromto", A: p[0], B: p[1]}) {
			return
		}
	}
	w.Family("elems-indices")
	for i := range c17Containers() {
		for b := range c17Rebinds {
			if !emit(c17Item{Kind: "elems-indices", A: i, B: b}) {
				return
			}
		}
	}
	w.Family("built-in-generators-after-context-recycling")
	for a := 0; a < 4; a++ {
		for b := 0; b <= 3; b++ {
			for _, shape := range []string{"zip3", "nest3", "zip2-in-loop", "zip4"} {
				if !emit(c17Item{Kind: "recycling", A: a, B: b, S: shape}) {
					return
				}
			}
		}
	}
	w.Family("wrong-arguments")
	bad := []string{"1", "1.5", "true", "[1]", "id", "\"x\""}
	wrong := []string{"id = (x) -> x"}
	_ = wrong
	for _, f := range []struct {
		name  string
		arity int
		okArg map[string]bool
	}{
		{"read", 0, nil}, {"write", 1, map[string]bool{"*": true}}, {"aton", 1, map[string]bool{}}, {"toa", 1, map[string]bool{"*": true}},
		{"fromto", 2, map[string]bool{"1": true, "1.5": true}}, {"elems", 1, map[string]bool{"[1]": true, "\"x\"": true}}, {"indices", 1, map[string]bool{"[1]": true, "\"x\"": true}},
	} {
		for n := 0; n <= 3; n++ {
			if n == f.arity {
				continue
			}
			args := strings.TrimSuffix(strings.Repeat("1, ", n), ", ")
			if !emit(c17Item{Kind: "wrong-args", S: fmt.Sprintf("%s(%s)", f.name, args)}) {
				return
			}
		}
		if f.okArg == nil || f.okArg["*"] {
			continue
		}
		for _, b := range bad {
			if f.okArg[b] {
				continue
			}
			arg := b
			if arg == "id" {
				arg = "toa" // a function value
			}
			var stmt string
			switch f.name {
			case "fromto":
				stmt = fmt.Sprintf("for i <- fromto(%s, 3) i", arg)
			case "elems", "indices":
				stmt = fmt.Sprintf("for i <- %s(%s) i", f.name, arg)
			case "aton":
				if b == "\"x\"" {
					stmt = "aton(\"x\")" // not a number: conversion error
				} else {
					stmt = fmt.Sprintf("aton(%s)", arg)
				}
			}
			if stmt != "" && !emit(c17Item{Kind: "wrong-args", S: stmt}) {
				return
			}
		}
	}
	for _, s := range []string{"aton(\"\")", "aton(\"1 2\")", "aton(\"abc\")", "aton(\"1.5.2\")", "aton(\"0x10\")"} {
		if !emit(c17Item{Kind: "wrong-args", S: s}) {
			return
		}
	}
	if w.CalcBinary == "" {
		return
	}
	w.Family("read-through-binary")
	for _, n := range []int{3, 50, 400, 1500} {
		for _, width := range []int{1, 20, 100, 5000} {
			if n*width > 2000000 {
				continue
			}
			if !emit(c17Item{Kind: "read-keep", A: n, B: width}) {
				return
			}
		}
	}
	seqs := [][]int{{}}
	for l := 1; l <= 3; l++ {
		var rec func(cur []int)
		rec = func(cur []int) {
			if len(cur) == l {
				seqs = append(seqs, append([]int{}, cur...))
				return
			}
			for i := range c17StdinLines {
				rec(append(cur, i))
			}
		}
		rec(nil)
	}
	for _, mode := range []string{"-eval", "file"} {
		for _, final := range []bool{true, false} {
			for _, ls := range seqs {
				for reads := 0; reads <= 4; reads++ {
					spec, _ := json.Marshal(map[string]any{"Mode": mode, "Final": final, "Lines": ls, "Reads": reads})
					if !emit(c17Item{Kind: "read", S: string(spec)}) {
						return
					}
					if mode == "file" && reads >= 2 {
						for f := 1; f < reads; f++ {
							spec, _ := json.Marshal(map[string]any{"Mode": mode, "Final": final, "Lines": ls, "Reads": reads, "Fail": f})
							if !emit(c17Item{Kind: "read", S: string(spec)}) {
								return
							}
						}
					}
				}
			}
		}
	}
	w.Family("exit-through-binary")
	for _, e := range []struct {
		src  string
		code int
	}{{"exit(0)", 0}, {"exit(3)", 3}, {"exit(255)", 255}, {"exit(1 + 1)", 2}, {"exit(\"x\")", -1}, {"exit(1.5)", -1}, {"exit([1])", -1}, {"exit(true)", -1}, {"exit(toa)", -1}} {
		if !emit(c17Item{Kind: "exit", S: e.src, A: e.code}) {
			return
		}
	}
}
