package checks

import (
	"encoding/json"
	"fmt"
	"strings"

	"vharness/internal/core"
	"vharness/internal/gen"
	"vharness/internal/impl"
	"vharness/internal/sess"
)

// C10: values are immutable — operations never alter operands or program constants.

func c10Prelude() []string {
	return []string{
		"x = [0]", "y = [0]", "z = [0]", "t = 0", "sx = \"-\"", "sy = \"-\"", "sz = \"-\"", "keep = []",
		"lit = () -> [1, 2, 3]",
		"app = (a) -> a + [5]",
		"mkc = (a) -> () -> a + [6]",
		"gen = (a) -> {\n  yield a + [7]\n  yield a + [8]\n}",
		"c = mkc([0])",
		"pair = (n) -> [n - 1, n + 1]",
		"trip = (n) -> [0, n * n, n]",
		"seq = (n) -> {\n  r = []\n  for i <- fromto(0, n) r = r + [i]\n  r\n}",
		"nest = (n) -> if n <= 0 {\n  []\n} else [] + [n, nest(n - 1)]",
		"py = (n) -> {\n  yield n\n  n + 100\n}",
		"gz = (n) -> {\n  w = [] + [n, py(n)]\n  yield w\n}",
		"ext = (a) -> {\n  b = a\n  b = b + [6]\n  a = a + [7]\n  [a, b]\n}",
		"grow = (a) -> {\n  a = a + [5]\n  a\n}",
		"use = () -> {\n  v = [1, 2, 3] + [4]\n  w = grow(v)\n  v = v + [9]\n  [w, v]\n}",
		"rows = (p, n) -> if n <= 0 {\n  [p]\n} else rows(p + [0], n - 1) + rows(p + [1], n - 1)",
	}
}

func c10Ops() []string {
	ops := []string{
		"x = [1, 2, 3]",
		"x = lit()",
		"x = [1, 2] + [3]",
		"z = y + [9]",
		"z = x + y",
		"x = x + [[7]]",
		"y = y + [8]",
		"z = app(y)",
		"y = app(x[0:1])",
		"for e <- elems(x) z = z + [e]",
		"c = mkc(y)",
		"z = c()",
		"for v <- gen(y) z = v",
		"for i <- fromto(0, 2) z = [1, 2] + [i]",
		"keep = keep + [y]",
		"z = keep + [x]",
		"sx = \"abc\"",
		"sy = sx[1:2]",
		"sz = sy + \"q\"",
		"sx = sx + sy",
		"z = [x[0:2], y]",
		"t = x == [1.0, 2.0, 3.0]",
		"t = [lit() == [1.0, 2, 3.0], x != y, keep == [y]]",
		"t = [x, y] == [[1.5, 2, 3], z]",
		"y = x + [8]",
		"z = x + [9]",
		"x = pair(10)",
		"y = pair(20)",
		"z = trip(3)",
		"keep = keep + [pair(#keep)]",
		"for i <- fromto(1, 4) keep = keep + [trip(i)]",
		"z = rows([], 2)",
		"y = rows(x, 1)[0]",
		"sz = sx + \"r\"",
		"sy = sx + \"s\"",
		"y = z[0:1] + x[1:2]",
		// arrays past the sizes at which an implementation might start to extend in place
		"x = seq(40)",
		"y = seq(33) + [1]",
		"z = x + y",
		// a literal whose later element runs the same literal again before it is complete (recursion, a suspended generator)
		"z = nest(3)",
		"{\n  z = []\n  for a, b <- gz(1), gz(2) z = z + [a, b]\n}",
		// one array held under two names inside a function, both extended in the `v = v + [...]` form
		"z = ext(y)",
		"z = ext([1, 2, 3] + [4])",
		"z = use()",
		"keep = keep + [grow(x)]",
		// statements that end in a runtime error after (re)defining functions whose bodies hold literals
		"{\n  lit = () -> [1, 2, 3]\n  c = mkc([0])\n  keep[99]\n}",
		"{\n  trip = (n) -> [0, n * n, n]\n  sz = \"abc\"[1:2] + 1\n}",
	}
	for i := 0; i <= 3; i++ {
		for j := i; j <= 3; j++ {
			ops = append(ops, fmt.Sprintf("y = x[%d:%d]", i, j))
		}
	}
	return ops
}

const c10Observer = "[x, y, z, sx, sy, sz, keep, lit(), c(), pair(1), trip(2)]"

type c10Item struct {
	Ops   []int    `json:"ops,omitempty"`
	Stmts []string `json:"stmts,omitempty"` // directed families: the session itself
}

type arrInfo struct {
	l, c int
	p    uintptr
}

func c10Judge(seq []int) (sig, detail, key string, sharing bool) {
	ops := c10Ops()
	stmts := append([]string{}, c10Prelude()...)
	for _, o := range seq {
		stmts = append(stmts, ops[o], c10Observer)
	}
	var keys []string
	echoes := []string{}
	opt := sess.Options{OnImplStmt: func(i int, s *impl.Session, r impl.StmtResult) {
		if s.Dead {
			return
		}
		if r.Err == "" {
			echoes = append(echoes, "> "+r.Display+"\n")
		} else {
			echoes = append(echoes, "")
		}
		infos := []arrInfo{}
		for _, name := range []string{"x", "y", "z", "keep"} {
			v := s.M.LookUpGlobal(name)
			if l, c, p, ok := v.VerifArrayInfo(); ok {
				infos = append(infos, arrInfo{l, c, p})
			}
		}
		k := ""
		for a := range infos {
			k += fmt.Sprintf("%d/%d", infos[a].l, infos[a].c)
			for b := range infos {
				if a < b && infos[a].p != 0 && overlap(infos[a], infos[b]) {
					k += fmt.Sprintf("~%d", b)
					if infos[a].c > infos[a].l || infos[b].c > infos[b].l {
						sharing = true
					}
				}
			}
			k += ";"
		}
		keys = append(keys, k+r.Canon)
	}}
	o := sess.Compare(stmts, opt)
	if o.Sig != "" {
		names := make([]string, len(seq))
		for i, x := range seq {
			names[i] = ops[x]
		}
		return "immutability:" + o.Sig, fmt.Sprintf("operations %q: %s", names, o.Detail), "", sharing
	}
	if len(keys) > 0 {
		key = keys[len(keys)-1]
	}
	// the same statements typed into the real read-eval loop (which compiles and runs them through processInput):
	// every observer must be echoed exactly as the in-process run (already equal to the reference) displays it
	failing := false
	for _, o := range seq {
		if strings.HasPrefix(ops[o], "{") {
			failing = true
		}
	}
	if len(seq) <= 2 || failing {
		parts := c08ViaLoop(stmts)
		if len(parts) != len(stmts) || len(echoes) != len(stmts) {
			return "immutability:read-eval-loop-lost-statements", fmt.Sprintf("operations %q typed into the read-eval loop: %d of %d statements answered (%d run in process)", opNames(seq), len(parts), len(stmts), len(echoes)), "", sharing
		}
		for i := len(c10Prelude()) + 1; i < len(stmts); i += 2 {
			if parts[i] != echoes[i] {
				return "immutability:read-eval-loop", fmt.Sprintf("operations %q typed into the read-eval loop: after operation %d the observer %s is echoed as %q; the values are %q", opNames(seq), (i-len(c10Prelude()))/2+1, c10Observer, parts[i], echoes[i]), "", sharing
			}
		}
	}
	return "", "", key, sharing
}

func opNames(seq []int) []string {
	ops := c10Ops()
	names := make([]string, len(seq))
	for i, x := range seq {
		names[i] = ops[x]
	}
	return names
}

func overlap(a, b arrInfo) bool {
	const sz = 24 // size of value.Type
	aEnd := a.p + uintptr(a.c*sz)
	bEnd := b.p + uintptr(b.c*sz)
	return a.p < bEnd && b.p < aEnd && a.c > 0 && b.c > 0
}

func init() {
	core.Register(&core.Check{
		ID:    "C10",
		Level: "model_checking",
		Rule: "explicit-state search over all sequences of length <= 3 (quick) / 4 (thorough) of 57 array/string operations on the globals x, y, z, sx, sy, sz, keep (literals at top level, inside a function called repeatedly and inside a loop; every slice x[i:j]; concatenations of slices, of slices of slices, nested arrays; passing to a concatenating function; iterating with elems; capture in a closure and in a generator that concatenate; string analogues). After every operation the observer [x, y, z, sx, sy, sz, keep, lit(), c(), pair(1), trip(2)] is evaluated on the real VM and on the reference model (which copies always): every variable not assigned, every earlier result and every literal must still print as before; sequences of length <= 2 and all sequences containing a statement that ends in a runtime error are also typed into the real read-eval loop (processInput), whose echo of every observer must equal the in-process value. Directed families against the same reference: array literals with 0..10 leading constants and 1..3 computed elements evaluated by repeated calls, in loops and in recursion while earlier results are alive; every concatenation chain of 3 and 4 operands over literals, slices with live data behind their end, three kinds of empty array and earlier concatenation results (and the string analogue). " +
			"states = distinct (renderings, len/cap of every live array, backing-array sharing relation) read through the value hook; transitions = operations applied; distinct_nontrivial = sequences after which two live arrays share a backing array with spare capacity (so an in-place append could have collided)",
		Assumptions: []string{"reference model refsem copies on every operation", "array layout is read through value.VerifArrayInfo (size of value.Type assumed 24 bytes for the overlap test)"},
		Exec: func(payload string) (string, string) {
			impl.Init()
			var it c10Item
			if err := json.Unmarshal([]byte(payload), &it); err != nil {
				return "harness:bad-payload", err.Error()
			}
			if len(it.Stmts) > 0 {
				if o := sess.Compare(it.Stmts, sess.Options{}); o.Sig != "" {
					return "immutability:" + o.Sig, o.Detail
				}
				return "", ""
			}
			s, d, _, _ := c10Judge(it.Ops)
			return s, d
		},
		Run: c10Run,
	})
}

func c10Run(w *core.W) {
	impl.Init()
	maxLen := 3
	if w.Thorough() {
		maxLen = 4
	}
	w.Family("operation-sequences")
	gen.Seqs(len(c10Ops()), 1, maxLen, func(seq []int) bool {
		b, _ := json.Marshal(c10Item{Ops: append([]int{}, seq...)})
		if !w.Mine(string(b)) {
			return true
		}
		sig, detail, key, sharing := c10Judge(seq)
		w.Count("transitions", int64(len(seq)))
		w.Count("traces_validated_against_impl", 1)
		if key != "" {
			w.Set("states", key)
		}
		if sharing {
			w.NonTrivial()
		}
		if sig != "" {
			w.Fail(string(b), sig, detail)
		}
		return !w.Expired("time budget reached")
	})
	// literal shapes: 0..10 leading constants followed by 1..3 computed elements (and a computed element first), built
	// by a function called twice, inside a loop at top level and inside a loop in a function; earlier results stay alive
	w.Family("literal-shapes")
	for c := 0; c <= 10; c++ {
		consts := []string{}
		for k := 1; k <= c; k++ {
			consts = append(consts, fmt.Sprint(k))
		}
		for _, suffix := range [][]string{{"n"}, {"n", "n + 1"}, {"n", "0", "n"}, {"[n]"}, {"\"s\" + toa(n)"}} {
			for _, front := range []bool{false, true} {
				el := append(append([]string{}, consts...), suffix...)
				if front {
					el = append([]string{"n"}, el...)
				}
				lit := "[" + strings.Join(el, ", ") + "]"
				st := []string{"f = (n) -> " + lit, "a = f(10)", "b = f(20)", "[a, b]", "rows = []", "for n <- fromto(0, 3) rows = rows + [" + lit + "]", "rows",
					"g = () -> {\n  r = []\n  for i <- fromto(0, 3) r = r + [f(i)]\n  r\n}", "k = g()", "[k, g()]", "[a, b, rows, k]",
					"h = (n) -> if n <= 0 {\n  []\n} else [" + lit + "] + h(n - 1)", "h(3)", "[a, b, rows, k]"}
				if !c10Directed(w, st) {
					return
				}
			}
		}
	}
	// concatenation chains: every chain of 3 and 4 operands (left-nested, and right-nested for 3) over arrays that are
	// literals, slices with live data behind their end, empty in three ways, and results of earlier concatenations
	w.Family("concatenation-chains")
	{
		pre := []string{"x = [1, 2, 3, 4]", "y = x[0:2]", "none = []", "e = x[0:0]", "z = [5] + [6]", "id = (v) -> v", "n = 1", "w = [n, n + 1, n + 2]", "v = [n, 2, 3, n + 3, n + 4]"}
		opsA := []string{"x", "y", "x[1:3]", "none", "[]", "e", "[9]", "z", "x[0:2]", "id(x)", "id(y)", "w", "v"}
		obs := "[x, y, z, e, none, w, v]"
		chain := func(c []string) bool {
			ch := strings.Join(c, " + ")
			st := append(append([]string{}, pre...), "r = "+ch, obs, "q = "+ch, "[r, q]", obs, "h = () -> "+ch, "[h(), h()]", obs)
			if !c10Directed(w, st) {
				return false
			}
			if len(c) == 3 {
				st = append(append([]string{}, pre...), "r = "+c[0]+" + ("+c[1]+" + "+c[2]+")", obs, "r = id("+c[0]+" + "+c[1]+") + "+c[2], "r", obs)
				return c10Directed(w, st)
			}
			return true
		}
		// one operand extended in several different ways, all results kept
		for _, a := range opsA {
			for _, b := range opsA {
				st := append(append([]string{}, pre...), "l = "+a+" + "+b, "m = "+a+" + [6]", "k = "+a+" + "+b+" + [7]", "j = "+a+" + [8, 9]", "[l, m, k, j]", obs,
					"h = () -> {\n  l = "+a+" + "+b+"\n  m = "+a+" + [6]\n  [l, m]\n}", "[h(), h()]", obs)
				if !c10Directed(w, st) {
					return
				}
			}
		}
		for _, a := range opsA {
			for _, b := range opsA {
				for _, c := range opsA {
					if !chain([]string{a, b, c}) {
						return
					}
					for _, d := range opsA {
						if !chain([]string{a, b, c, d}) {
							return
						}
					}
				}
			}
		}
		// the same with arrays past the sizes at which an implementation might extend in place (chains of 3)
		obs = "[x, y, z, e, none]"
		preB := []string{"sq = (n) -> {\n  r = []\n  for i <- fromto(0, n) r = r + [i]\n  r\n}", "x = sq(40)", "y = x[0:35]", "none = []", "e = x[0:0]", "z = sq(33) + [1]", "id = (v) -> v"}
		opsB := []string{"x", "y", "z", "none", "[9]", "x[2:34]"}
		for _, a := range opsB {
			for _, b := range opsB {
				for _, c := range opsB {
					ch := a + " + " + b + " + " + c
					if !c10Directed(w, append(append([]string{}, preB...), "r = "+ch, "#r", "q = "+ch, "r == q", obs, "l = "+a+" + [5]", "m = "+a+" + [6]", "[l[#l - 1], m[#m - 1]]", obs)) {
						return
					}
				}
			}
		}
		preS := []string{"x = \"abcd\"", "y = x[0:2]", "none = \"\"", "e = x[0:0]", "z = \"5\" + \"6\"", "id = (v) -> v"}
		opsS := []string{"x", "y", "x[1:3]", "none", "\"\"", "\"9\"", "z"}
		for _, a := range opsS {
			for _, b := range opsS {
				for _, c := range opsS {
					ch := a + " + " + b + " + " + c
					if !c10Directed(w, append(append([]string{}, preS...), "r = "+ch, obs, "q = "+ch, "[r, q]", obs)) {
						return
					}
				}
			}
		}
	}
	_ = strings.Join
}

// c10Directed runs one directed session against the reference model (which copies on every operation).
func c10Directed(w *core.W, stmts []string) bool {
	b, _ := json.Marshal(c10Item{Stmts: stmts})
	if w.Mine(string(b)) {
		w.Count("traces_validated_against_impl", 1)
		w.Count("transitions", int64(len(stmts)))
		if o := sess.Compare(stmts, sess.Options{}); o.Sig != "" {
			w.Fail(string(b), "immutability:"+o.Sig, o.Detail)
		}
	}
	return !w.Expired("time budget reached")
}
