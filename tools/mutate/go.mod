module mutate

go 1.23
