package checks

import (
	"fmt"
	"reflect"

	"github.com/paulsonkoly/calc/types/node"

	"vharness/internal/ast"
	"vharness/internal/core"
	. "vharness/internal/gen"
	"vharness/internal/impl"
)

// C07: parsing follows the documented grammar — trees round-trip through source text.

var c07Styles = []ast.Style{
	{Indent: "  "},
	{Indent: "  ", FullParens: true},
	{Indent: "", Redundant: true},
	{Indent: "\t", AllBraces: true},
}

// c07Judge prints t in every style (and, if layouts, every single-site layout
// deviation of the plain print) and requires the parser to return exactly t.
func c07Judge(t T, layouts bool) (sig, detail string, parses int) {
	check := func(text, how string) (string, string) {
		parses++
		pr := impl.Parse(text, impl.ParseFuel(len(text)))
		switch {
		case pr.Panic != "":
			return "parser-panic", fmt.Sprintf("%s %q: %s", how, text, pr.Panic)
		case pr.FuelOut != "":
			return "parser-hang", fmt.Sprintf("%s %q", how, text)
		case pr.Err != "":
			return "rejects-documented-syntax:" + how, fmt.Sprintf("%s text %q of tree %s is rejected: %s", how, text, dump(t), pr.Err)
		case len(pr.Trees) != 1 || !reflect.DeepEqual(pr.Trees[0], t):
			return "different-tree:" + how, fmt.Sprintf("%s text %q parses to %s, written from %s", how, text, dumps(pr.Trees), dump(t))
		}
		return "", ""
	}
	names := []string{"minimal", "full-parens", "redundant-parens", "all-braces"}
	var plain string
	for i, st := range c07Styles {
		text := ast.Stmt(t, st)
		if i == 0 {
			plain = text
		}
		if s, d := check(text, names[i]); s != "" {
			return s, d, parses
		}
	}
	if layouts {
		for _, v := range ast.Layouts(plain) {
			if s, d := check(v, "layout"); s != "" {
				return s, d, parses
			}
		}
	}
	return "", "", parses
}

func dump(t T) string { return fmt.Sprintf("%#v", t) }
func dumps(ts []node.Type) string {
	s := "["
	for i, t := range ts {
		if i > 0 {
			s += ", "
		}
		s += dump(t)
	}
	return s + "]"
}

// exprD1 lists every expression of depth <= 1 over the leaves 1 and a and the full operator set.
func exprD1(binops []string) []T {
	leaves := []T{I(1), N("a")}
	out := append([]T{}, leaves...)
	for _, op := range binops {
		for _, l := range leaves {
			for _, r := range leaves {
				out = append(out, Bin(op, l, r))
			}
		}
	}
	for _, op := range ast.UnaryOps {
		for _, l := range leaves {
			out = append(out, Un(op, l))
		}
	}
	for _, l := range leaves {
		out = append(out, Call("f", l), L(l), Fn(Ps("p"), l), Fn(P, l))
		for _, r := range leaves {
			out = append(out, Ix(l, r), L(l, r), Call("f", l, r), Ix2(l, r, I(2)))
		}
	}
	out = append(out, Call("f"), L(), F(1.5), S("s\"q"), B(true), B(false), S(""))
	return out
}

func c07Exprs(w *core.W, emit func(T, bool) bool) bool {
	d1 := exprD1(ast.BinaryOps)
	for _, e := range d1 {
		if !emit(e, true) {
			return false
		}
	}
	// depth 2: every operator over every pair of depth<=1 expressions
	for _, op := range ast.BinaryOps {
		for _, l := range d1 {
			for _, r := range d1 {
				if !emit(Bin(op, l, r), w.Thorough()) {
					return false
				}
			}
		}
	}
	for _, x := range d1 {
		for _, op := range ast.UnaryOps {
			if !emit(Un(op, x), true) {
				return false
			}
		}
		if !emit(Call("f", x), true) || !emit(L(x), true) || !emit(Fn(Ps("p", "q"), x), true) || !emit(Ix2(x, I(0), N("a")), true) || !emit(Ix2(N("a"), x, x), true) {
			return false
		}
		for _, y := range d1 {
			if !emit(Ix(x, y), false) || !emit(L(x, y), false) || !emit(Call("f", x, y), false) {
				return false
			}
		}
	}
	return true
}

// c07Deep: depth 3 over one representative operator per precedence level, unary minus and indexing.
func c07Deep(emit func(T, bool) bool) bool {
	reps := []string{"||", "<", "&", "-", "/"}
	leaves := []T{I(1), N("a")}
	mk := func(args []T) []T {
		out := []T{}
		for _, op := range reps {
			for _, l := range args {
				for _, r := range args {
					out = append(out, Bin(op, l, r))
				}
			}
		}
		for _, l := range args {
			out = append(out, Un("-", l), Un("!", l), Ix(l, I(0)))
		}
		return out
	}
	d1 := append(append([]T{}, leaves...), mk(leaves)...)
	d2 := mk(d1)
	for _, op := range reps {
		for _, x := range d2 {
			for _, y := range d1 {
				if !emit(Bin(op, x, y), false) || !emit(Bin(op, y, x), false) {
					return false
				}
			}
		}
	}
	for _, x := range d2 {
		if !emit(Un("-", x), false) || !emit(Ix(x, I(0)), false) || !emit(Ix(N("a"), x), false) {
			return false
		}
	}
	return true
}

// statement families: every statement form in every body position, one-line and braced, nesting <= 2
func c07Stmts(w *core.W, emit func(T, bool) bool) bool {
	c := N("c")
	s0 := []T{Asg("x", I(1)), Ret(I(1)), Yld(N("a")), N("a"), Call("f", I(1)), Asg("h", Fn(Ps("p"), N("p")))}
	blocks := func(ss []T) []T {
		out := []T{}
		for i, a := range ss {
			b := ss[(i+1)%len(ss)]
			out = append(out, Blk(a, b))
		}
		out = append(out, Blk(ss[0], ss[1], ss[2]))
		return out
	}
	compound := func(bodies []T, elseBodies []T) []T {
		out := []T{}
		for _, b := range bodies {
			out = append(out, If(c, b), Wh(c, b), For("i", Call("g"), b), ForN([]string{"i", "j"}, []T{Call("g"), N("a")}, b),
				Asg("h", Fn(Ps("p"), b)), Fn(P, b), Ret(Fn(Ps("p", "q"), b)))
			for _, e := range elseBodies {
				out = append(out, IfE(c, b, e))
			}
		}
		return out
	}
	bodies0 := append(append([]T{}, s0...), blocks(s0)...)
	s1 := append(append([]T{}, s0...), compound(bodies0, bodies0)...)
	for _, s := range s1 {
		if !emit(s, true) {
			return false
		}
	}
	for _, b := range blocks(s1[len(s0) : len(s0)+40]) {
		if !emit(b, true) {
			return false
		}
	}
	// nesting 2: bodies are compound statements themselves (dangling-else shapes included)
	bodies1 := append(append([]T{}, s1...), blocks(s1[len(s0):len(s0)+40])...)
	elses := bodies1
	if !w.Thorough() {
		elses = s1[:60]
	}
	for _, s := range compound(bodies1, elses) {
		if !emit(s, false) {
			return false
		}
	}
	return true
}

func init() {
	core.Register(&core.Check{
		ID:    "C07",
		Level: "exploration",
		Rule: "(string literals of <= 3 characters over {a, quote, line break, blank, ;, {} in six positions; sums, mixed-operator chains, list literals, argument lists, blocks, function bodies, else-if chains and loops of 50..1000 members) + syntax trees: (a) every expression of depth <= 2 over the full operator set (17 binary, 4 unary, both index forms, call, array literal, function literal) and the leaves 1, a; (b, thorough) depth 3 over one operator per precedence level, unary and indexing; (c) every statement form in every body position (then, else, while, for, function body, block element) one-line and braced to nesting 2, dangling-else shapes included. " +
			"Each tree is printed by the documented rules in four styles (minimal, full parentheses, redundant parentheses, all braces) and, for the smaller families, in every single-site layout deviation (extra blank/tab in any gap, blank line or comment at any line break, line break after '[' or ',' of an array literal, trailing newline/comment); parser.Parse of each text must return exactly that tree (reflect.DeepEqual). distinct = distinct tree; non-trivial = trees with at least one operator or compound statement",
		Assumptions: []string{
			"the printer (harness/internal/ast) encodes the documented grammar: precedence table, left associativity, unary over index-level terms, braces where a one-line body would be continued by the preceding expression or capture a following else",
		},
		Exec: func(payload string) (string, string) {
			impl.Init()
			p := stmtsOf(payload)
			t := ast.Decode(p[0])
			if !reflect.DeepEqual(ast.Decode(ast.Encode(t)), t) {
				return "harness:sexpr-roundtrip", p[0]
			}
			s, d, _ := c07Judge(t, len(p) > 1 && p[1] == "layouts")
			return s, d
		},
		Run: c07Run,
	})
}

func c07Run(w *core.W) {
	impl.Init()
	w.NoCur = true
	n := 0
	emit := func(t T, layouts bool) bool {
		key := ast.Stmt(t, ast.Plain)
		if !w.Mine(key) {
			return true
		}
		sig, detail, parses := c07Judge(t, layouts)
		w.Evals(int64(parses - 1))
		w.Count("parses", int64(parses))
		if ast.Size(t) > 1 {
			w.NonTrivial()
		}
		if sig != "" {
			lay := "no-layouts"
			if layouts {
				lay = "layouts"
			}
			w.Fail(payloadOf([]string{ast.Encode(t), lay, key}), sig, detail)
		}
		n++
		return n%512 != 0 || !w.Expired("time budget reached")
	}
	w.Family("statements")
	if !c07Stmts(w, emit) {
		return
	}
	w.Family("expressions-depth2")
	if !c07Exprs(w, emit) {
		return
	}
	// string literals: every text of at most 3 characters over {a, quote, line break, blank, ;, {, a two-byte and a three-byte character} (the two documented
	// escapes and the characters that mean something outside a string) in five positions
	w.Family("string-literals")
	{
		chars := []string{"a", "\"", "\n", " ", ";", "{", "é", "語"}
		texts := []string{""}
		for n, level := 0, []string{""}; n < 3; n++ {
			next := []string{}
			for _, t := range level {
				for _, c := range chars {
					next = append(next, t+c)
				}
			}
			texts = append(texts, next...)
			level = next
		}
		for _, t := range texts {
			for _, e := range []T{S(t), Asg("x", S(t)), Bin("+", S(t), S(t)), L(S(t), I(1)), Call("f", S(t)), Ix(S(t), I(0))} {
				if !emit(e, false) {
					return
				}
			}
		}
	}
	// long inputs: the parser's token buffer, snapshot stack and recursion at 50..1000 operands / elements / statements
	w.Family("scaling")
	for _, n := range []int{50, 100, 127, 128, 129, 130, 200, 255, 256, 257, 300, 513, 1000} {
		var sum, mixed T = I(1), N("a")
		elems, stmts, args := []T{}, []T{}, []T{}
		for i := 1; i < n; i++ {
			sum = Bin("+", sum, I(1))
			mixed = Bin([]string{"+", "*", "-", "<", "&"}[i%5], mixed, I(i%7))
			elems = append(elems, I(i%10))
			args = append(args, N("a"))
			stmts = append(stmts, Asg("x", Bin("+", N("x"), I(i%10))))
		}
		var chain T = I(0)
		for i := 0; i < n/4; i++ {
			chain = IfE(Bin("<", N("a"), I(i%10)), I(i%10), chain)
		}
		for _, t := range []T{sum, Asg("x", sum), mixed, L(elems...), Bin("+", L(elems...), L(I(1))), Call("f", args...), Blk(stmts...),
			Fn(Ps("p"), Blk(stmts...)), chain, Wh(B(true), Blk(stmts...)), Blk(Asg("y", sum), Asg("z", L(elems...)), Call("f", args...))} {
			if !emit(t, false) {
				return
			}
		}
	}
	if w.Thorough() {
		w.Family("expressions-depth3-representatives")
		c07Deep(emit)
	}
}
