#!/bin/sh
# usage: seedauto.sh <out-dir> <property id> <round-tag>
# Confirms every change of a sub-agent's output directory (seedverify.sh for script demonstrations, seedverify_go.sh for
# Go-test demonstrations), prints one verdict line per change, and stores the confirmed ones (seedstore.py).
out=$1; pid=$2; tag=$3
cd /verif
ok=""
for n in 1 2 3; do
  [ -f $out/patch$n.diff ] || { echo "$pid-$tag-$n: no patch"; continue; }
  log=/tmp/seedauto.$pid.$n.log
  [ -f $out/demo$n.in ] && [ ! -f $out/demo$n.input ] && cp $out/demo$n.in $out/demo$n.input
  if [ -f $out/demo$n.calc ]; then
    LINES_MAX=6 ./seedverify.sh $out $n > $log 2>&1
    if grep -q "build+vet: ok" $log && grep -q "build -tags verif: ok" $log && grep -q "repo tests failing lines: 0" $log && grep -q "DEMO-DIFFERS: yes" $log; then v=CONFIRMED; ok="$ok $n"; else v=REJECTED; fi
  elif [ -f $out/demo${n}_test.go ]; then
    pkg=$(grep -m1 "^package " $out/demo${n}_test.go | awk '{print $2}' | sed 's/_test$//')
    case $pkg in node) dir=types/node;; value) dir=types/value;; bytecode) dir=types/bytecode;; token) dir=types/token;; main) dir=cmd/calc;; *) dir=$pkg;; esac
    tags=""; grep -q "go:build verif" $out/demo${n}_test.go && tags="-tags verif"
    ./seedverify_go.sh $out $n $dir $tags > $log 2>&1
    w=$(sed -n '/WITHOUT the change/,/repo tests/p' $log | grep -c "^ok")
    f=$(sed -n '/WITH the change:/,$p' $log | grep -c "^FAIL\|^--- FAIL\|^panic")
    if [ "$w" -ge 1 ] && [ "$f" -ge 1 ] && grep -q "failing lines with the change: 0" $log && grep -q "build+vet: ok" $log && grep -q "build -tags verif: ok" $log; then v=CONFIRMED; ok="$ok $n"; else v=REJECTED; fi
  elif [ -f $out/demo$n.go ]; then
    ./seedverify_gorun.sh $out $n > $log 2>&1
    if grep -q "build+vet: ok" $log && grep -q "build -tags verif: ok" $log && grep -q "repo tests failing lines: 0" $log && grep -q "DEMO-DIFFERS: yes" $log; then v=CONFIRMED; ok="$ok $n"; else v=REJECTED; fi
  else
    v="REJECTED (no demonstration)"; : > $log
  fi
  echo "$pid-$tag-$n: $v ($(grep -m1 'files:' $log))"
done
[ -n "$ok" ] && ./seedstore.py $out $pid $tag $ok
