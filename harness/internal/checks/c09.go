package checks

import (
	"encoding/json"
	"fmt"

	"github.com/paulsonkoly/calc/types/bytecode"
	"github.com/paulsonkoly/calc/vm"

	"vharness/internal/core"
	. "vharness/internal/gen"
	"vharness/internal/impl"
)

// C09: evaluation leaves the machine clean — no stack, frame or context residue.

type machineUse struct {
	MaxSPMain      int
	MaxSPChild     int
	MaxCtx         int
	MaxFramesChild int
	StackLen       int
	Steps          int
}

// c09Run1 runs a session on a fresh VM; after every statement the operand
// stack, frame stack, closure stack and live context set must be empty again.
// It also measures the peak stack use, sampled at every instruction.
func c09Run1(stmts []string, fuel int, noResult bool) (sig, detail string, use machineUse, skipped bool) {
	s := impl.NewSession()
	s.Step = func(v *vm.Type, info vm.VerifStepInfo) {
		st := info.M.VerifState()
		if info.Main {
			if st.SP > use.MaxSPMain {
				use.MaxSPMain = st.SP
			}
		} else {
			if st.SP > use.MaxSPChild {
				use.MaxSPChild = st.SP
			}
			if st.Frames > use.MaxFramesChild {
				use.MaxFramesChild = st.Frames
			}
		}
		in := (*s.CR.CS)[info.IP]
		if op := in.OpCode(); op == bytecode.SCONT || op == bytecode.CCONT || (op == bytecode.JMP && in.Src0Addr() < 0) {
			if n := v.VerifLiveContexts(); n > use.MaxCtx {
				use.MaxCtx = n
			}
		}
	}
	for i, src := range stmts {
		pr := impl.ParseCached(src)
		if pr.Err != "" || pr.Panic != "" || pr.FuelOut != "" {
			return "harness:generated-program-does-not-parse", fmt.Sprintf("statement %d `%s`: %s%s%s", i, src, pr.Err, pr.Panic, pr.FuelOut), use, false
		}
		for _, t := range pr.Trees {
			var r impl.StmtResult
			if noResult {
				r = s.RunTreeNoResult(t, fuel) // compiled and run as file mode does: result discarded
			} else {
				r = s.RunTree(t, fuel)
			}
			use.Steps += r.Steps
			if r.Panic != "" || r.FuelOut {
				return "", "", use, true // crashes and hangs are C05's subject
			}
			st := s.M.VerifState()
			ctx := s.VM.VerifLiveContexts()
			if st.SP != 0 || st.Frames != 0 || st.Closures != 0 || ctx != 0 {
				kind := ""
				if st.SP != 0 {
					kind += "+stack"
				}
				if st.Frames != 0 {
					kind += "+frames"
				}
				if st.Closures != 0 {
					kind += "+closures"
				}
				if ctx != 0 {
					kind += "+contexts"
				}
				how := "normally"
				if r.Err != "" {
					how = "with " + r.Err
				}
				return "residue:" + kind, fmt.Sprintf("statement %d `%s` finished %s leaving sp=%d frames=%d closures=%d live contexts=%d", i, clipStr(src, 300), how, st.SP, st.Frames, st.Closures, ctx), use, false
			}
			if mip := s.VM.VerifMainIP(); mip != len(*s.CR.CS) {
				return "residue:+ip", fmt.Sprintf("statement %d `%s`: main context ip=%d, end of code=%d", i, clipStr(src, 300), mip, len(*s.CR.CS)), use, false
			}
			use.StackLen = st.StackLen
		}
	}
	return "", "", use, false
}

type c09Item struct {
	Kind  string   `json:"kind"` // residue | scaling
	A     []string `json:"a"`
	B     []string `json:"b,omitempty"`
	NoRes bool     `json:"file_mode,omitempty"` // compile with ByteCodeNoStck / Run(false), as file mode does
	NA    int      `json:"na,omitempty"`
	NB    int      `json:"nb,omitempty"`
}

func c09Judge(it c09Item) (sig, detail string, skipped bool) {
	sig, detail, ua, skipped := c09Run1(it.A, 3000000, it.NoRes)
	if sig != "" || skipped || it.Kind == "residue" {
		return sig, detail, skipped
	}
	sig, detail, ub, skipped := c09Run1(it.B, 6000000, it.NoRes)
	if sig != "" || skipped {
		return sig, detail, skipped
	}
	if ub.MaxSPMain > ua.MaxSPMain || ub.MaxSPChild > ua.MaxSPChild || ub.MaxCtx > ua.MaxCtx || ub.StackLen > ua.StackLen || ub.MaxFramesChild > ua.MaxFramesChild {
		return "working-storage-grows", fmt.Sprintf("the same loop with %d and %d iterations: peak operand stack main %d→%d, generator contexts %d→%d, live contexts %d→%d, stack length %d→%d, call frames in a generator context %d→%d; program: %v", it.NA, it.NB, ua.MaxSPMain, ub.MaxSPMain, ua.MaxSPChild, ub.MaxSPChild, ua.MaxCtx, ub.MaxCtx, ua.StackLen, ub.StackLen, ua.MaxFramesChild, ub.MaxFramesChild, tail(it.B)), false
	}
	return "", "", false
}

func init() {
	core.Register(&core.Check{
		ID:    "C09",
		Level: "exploration",
		Rule: "every item is compiled and run both ways, with the result used (REPL, -eval) and discarded (file mode); (a) residue: every statement form (constants, computed expressions, calls, assignments, if with constant / computed / failing condition and constant / computed / returning branches, if-else, nested while and for, blocks, yield, return, function literals, output) in every statement context (used / discarded, then / else, while / for body, function tail / non-tail, generator body) and the generator x body x placement loops of C02 (early returns from nested loops included): after every statement the hooks must read sp = 0, no frames, no closure frames, no live contexts, ip at end of code; " +
			"(b) scaling: every statement form as the body (last, or discarded mid-block) of every loop driver (while / for, used / discarded, nested, in a function, at top level, inside a generator, calling a function that returns from an inner loop) run with 5 and with 300 (thorough: 600) iterations: peak operand stack of main and generator contexts, peak live contexts and stack length must not grow. distinct = distinct session (pair); non-trivial = sessions that ran to the end without crash or fuel exhaustion",
		Assumptions: []string{"read-only hooks: memory.VerifState, vm.VerifLiveContexts, vm.VerifMainIP, vm step callback", "sessions that crash or exhaust their fuel are C05's subject and skipped here"},
		Exec: func(payload string) (string, string) {
			impl.Init()
			var it c09Item
			if err := json.Unmarshal([]byte(payload), &it); err != nil {
				return "harness:bad-payload", err.Error()
			}
			s, d, _ := c09Judge(it)
			return s, d
		},
		Run: c09Run,
	})
}

// c09Forms: statement forms whose code generation differs in what they leave on the stack.
func c09Forms() []T {
	c := Bin("<", N("gi"), I(5)) // computed true condition
	cf := Bin(">", N("gi"), I(5))
	// logic operators over every pair of operand sources (variable comparison / comparison of a call result) and
	// truth values: operands a shortcut might not fetch must still be consumed
	logic := []T{}
	srcs := []T{c, cf, Bin("<", Call("id", I(1)), I(5)), Bin(">", Call("id", I(1)), I(5))}
	for _, op := range []string{"&", "|", "&&", "||"} {
		for _, l := range srcs {
			for _, r := range srcs {
				logic = append(logic, Bin(op, l, r))
			}
		}
	}
	logic = append(logic, Call("second", I(7), Bin("&", c, Bin(">", Call("id", I(1)), I(5)))), L(I(7), Bin("|", cf, Bin("<", Call("id", I(1)), I(5))), I(8)),
		If(Bin("&", c, Bin(">", Call("id", I(1)), I(5))), I(5)), Asg("x", Bin("|", Bin("<", Call("id", I(1)), I(5)), cf)))
	return append(logic, c09BaseForms(c, cf)...)
}

func c09BaseForms(c, cf T) []T {
	return []T{
		I(5), N("gi"), Bin("+", N("gi"), I(1)), Bin("*", Bin("+", N("gi"), I(1)), I(2)), Call("id", I(5)), L(I(1), Bin("+", I(1), I(1))), Ix(N("ga"), I(0)),
		Asg("x", I(5)), Asg("x", Bin("+", N("gi"), I(1))), Asg("x", Call("id", I(5))), Asg("x", Bin("+", N("x"), I(1))),
		If(B(true), I(5)), If(B(false), I(5)), If(c, I(5)), If(cf, I(5)), If(c, Bin("+", N("gi"), I(1))), If(cf, Call("id", I(5))), If(c, Asg("x", I(1))),
		If(Un("!", c), I(5)), If(Un("!", cf), Bin("+", N("gi"), I(1))),
		IfE(c, I(5), I(6)), IfE(cf, I(5), Bin("+", N("gi"), I(1))), IfE(c, Call("id", I(5)), I(6)), IfE(Un("!", c), Asg("x", I(1)), I(6)),
		If(c, If(c, I(5))), If(c, Blk(Asg("x", I(1)), If(cf, I(5)))), IfE(c, If(cf, I(5)), I(6)),
		Wh(cf, I(5)), Blk(Asg("w", I(0)), Wh(Bin("<", N("w"), I(2)), Asg("w", Bin("+", N("w"), I(1))))), Blk(Asg("w", I(0)), Wh(Bin("<", N("w"), I(2)), Blk(Asg("w", Bin("+", N("w"), I(1))), If(c, I(5))))),
		For("j", Call("fromto", I(0), I(2)), I(5)), For("j", Call("fromto", I(0), I(2)), Bin("+", N("j"), I(1))), For("j", Call("fromto", I(0), I(0)), I(5)), For("j", Call("lit"), If(c, I(5))),
		ForN([]string{"j", "m"}, []T{Call("fromto", I(0), I(2)), Call("lit")}, Bin("+", N("j"), N("m"))),
		For("j", Call("fromto", I(0), I(3)), For("m", Call("lit"), If(Bin("==", N("m"), I(2)), N("m")))),
		Yld(I(5)), Yld(Bin("+", N("gi"), I(1))), Asg("h", Fn(Ps("p"), N("p"))), Call("write", S("")), Call("toa", N("gi")),
		IfE(cf, Ret(I(5)), I(6)), IfE(c, I(5), Ret(I(6))), IfE(cf, Ret(I(5)), Bin("+", N("gi"), I(1))), IfE(cf, Ret(I(5)), Call("id", I(6))), If(cf, Ret(I(5))),
		IfE(cf, Blk(Asg("x", I(1)), Ret(I(5))), Blk(Asg("x", I(2)), Bin("+", N("x"), I(1)))),
		ForN([]string{"j", "m"}, []T{Call("lit"), Call("fromto", I(0), I(9))}, Bin("+", N("j"), N("m"))),
		ForN([]string{"j", "m"}, []T{Call("fromto", I(0), I(2)), Call("fromto", I(0), I(2))}, N("j")),
		ForN([]string{"j", "m", "n"}, []T{Call("fromto", I(0), I(5)), Call("lit"), Call("fromto", I(0), I(7))}, N("n")),
		Ret(I(5)), Ret(Bin("+", N("gi"), I(1))), If(c, Ret(I(5))), For("j", Call("fromto", I(0), I(5)), If(Bin("==", N("j"), I(3)), Ret(N("j")))), Wh(c, Ret(Call("id", I(5)))),
		Blk(I(5), I(6)), Blk(Bin("+", N("gi"), I(1)), Call("id", I(5))), Call("retin"), Call("retinb"), Asg("x", Call("retin")),
	}
}

func c09Prelude() []T {
	return append(preludeTop(),
		secondDef(),
		Asg("lit", Fn(P, Blk(Yld(I(1)), Yld(I(2)), Yld(I(3))))),
		// returns from an inner loop of two nested loops
		Asg("retin", Fn(P, For("a", Call("fromto", I(0), I(3)), For("b", Call("fromto", I(0), I(3)), If(Bin("==", N("b"), I(1)), Ret(N("a"))))))),
		Asg("retinb", Fn(P, Blk(For("a", Call("lit"), For("b", Call("lit"), Wh(B(true), Ret(Bin("+", N("a"), N("b")))))), I(0)))),
	)
}

type c09Driver struct {
	Name string
	F    func(n int, s T) []T
}

func c09Drivers() []c09Driver {
	cnt := func(n int, body ...T) T {
		return Blk(Asg("k", I(0)), Wh(Bin("<", N("k"), I(n)), Blk(append([]T{Asg("k", Bin("+", N("k"), I(1)))}, body...)...)))
	}
	inFn := func(body ...T) []T { return []T{Asg("run", Fn(P, Blk(body...))), Call("run")} }
	return []c09Driver{
		{"while-last-used", func(n int, s T) []T { return []T{cnt(n, s)} }},
		{"while-last-discarded", func(n int, s T) []T { return []T{Blk(cnt(n, s), I(7))} }},
		{"while-mid-block", func(n int, s T) []T { return []T{cnt(n, s, Asg("z", I(1)))} }},
		{"for-last-used", func(n int, s T) []T { return []T{For("i", Call("fromto", I(0), I(n)), s)} }},
		{"for-last-discarded", func(n int, s T) []T { return []T{Blk(For("i", Call("fromto", I(0), I(n)), s), I(7))} }},
		{"for-mid-block", func(n int, s T) []T { return []T{For("i", Call("fromto", I(0), I(n)), Blk(s, Asg("z", I(1))))} }},
		{"fn-while-tail", func(n int, s T) []T { return inFn(cnt(n, s)) }},
		{"fn-while-nontail", func(n int, s T) []T { return inFn(cnt(n, s), I(7)) }},
		{"fn-for-tail", func(n int, s T) []T { return inFn(For("i", Call("fromto", I(0), I(n)), s)) }},
		{"fn-for-nontail", func(n int, s T) []T { return inFn(For("i", Call("fromto", I(0), I(n)), Blk(s, Asg("z", I(1)))), I(7)) }},
		{"nested-while-for", func(n int, s T) []T { return []T{cnt(n, For("q", Call("fromto", I(0), I(2)), s))} }},
		{"nested-for-for-fn", func(n int, s T) []T {
			return inFn(For("i", Call("fromto", I(0), I(n)), For("q", Call("lit"), s)), I(7))
		}},
		{"calls-in-loop", func(n int, s T) []T {
			return []T{Asg("once", Fn(P, Blk(s, I(1)))), For("i", Call("fromto", I(0), I(n)), Asg("z", Call("once")))}
		}},
		{"in-generator", func(n int, s T) []T {
			return []T{Asg("g", Fn(P, For("i", Call("fromto", I(0), I(n)), Blk(s, Yld(N("i")))))), Asg("acc", I(0)), For("v", Call("g"), Asg("acc", Bin("+", N("acc"), I(1)))), N("acc")}
		}},
	}
}

func c09Run(w *core.W) {
	impl.Init()
	pre := c09Prelude()
	emit := func(it c09Item) bool {
		key := fmt.Sprint(it.Kind, it.NoRes) + "\x00" + keyOf(it.A) + "\x00" + keyOf(it.B)
		if !w.Mine(key) {
			return true
		}
		sig, detail, skipped := c09Judge(it)
		if skipped {
			w.Count("skipped_crash_or_fuel", 1)
		} else {
			w.NonTrivial()
		}
		if sig != "" {
			b, _ := json.Marshal(it)
			w.Fail(string(b), sig, detail)
		}
		return !w.Expired("time budget reached")
	}
	text := func(stmts []T) []string { return Texts(append(append([]T{}, pre...), stmts...)...) }

	w.Family("residue: form x statement context")
	for _, f := range c09Forms() {
		for _, sc := range stmtContexts() {
			if !emit(c09Item{Kind: "residue", A: text(sc.F(f))}) || !emit(c09Item{Kind: "residue", A: text(sc.F(f)), NoRes: true}) {
				return
			}
		}
	}
	w.Family("residue: generator loops")
	for _, fam := range c02Families(w.Thorough())[:3] {
		ok := true
		n := 0
		fam.Each(func(stmts []T) bool {
			n++
			if !w.Thorough() && n%3 != 0 {
				return true
			}
			ok = emit(c09Item{Kind: "residue", A: Texts(append(genPrelude(), stmts...)...)})
			return ok
		})
		if !ok {
			return
		}
	}
	w.Family("scaling: form x loop driver")
	big := 300
	if w.Thorough() {
		big = 600
	}
	for _, f := range c09Forms() {
		for _, d := range c09Drivers() {
			if !emit(c09Item{Kind: "scaling", A: text(d.F(5, f)), B: text(d.F(big, f)), NA: 5, NB: big}) ||
				!emit(c09Item{Kind: "scaling", A: text(d.F(5, f)), B: text(d.F(big, f)), NA: 5, NB: big, NoRes: true}) {
				return
			}
		}
	}
}
