package checks

import (
	"vharness/internal/core"
	. "vharness/internal/gen"
	"vharness/internal/impl"
	"vharness/internal/sess"
)

// C02: for loops consume exactly what their iterators yield, lazily and in order.

// genPrelude defines the generator building blocks.
func genPrelude() []T {
	return []T{
		Asg("id", Fn(Ps("x"), N("x"))),
		Asg("dbl", Fn(Ps("x"), Bin("*", N("x"), I(2)))),
		Asg("odd", Fn(Ps("x"), Bin("==", Bin("%", N("x"), I(2)), I(1)))),
		Asg("deep", Fn(Ps("n"), IfE(Bin("<=", N("n"), I(0)), I(0), Bin("+", I(1), Call("deep", Bin("-", N("n"), I(1))))))),
		Asg("map", Fn(Ps("f", "iter"), For("e", Call("iter"), Yld(Call("f", N("e")))))),
		Asg("filter", Fn(Ps("p", "iter"), For("e", Call("iter"), If(Call("p", N("e")), Yld(N("e")))))),
		Asg("take", Fn(Ps("n", "iter"), Blk(Asg("k", I(0)), For("e", Call("iter"), Blk(If(Bin(">=", N("k"), N("n")), Ret(I(0))), Asg("k", Bin("+", N("k"), I(1))), Yld(N("e"))))))),
		Asg("chain", Fn(Ps("ga", "gb"), Blk(For("e", Call("ga"), Yld(N("e"))), For("e", Call("gb"), Yld(N("e")))))),
		Asg("lit", Fn(P, Blk(Yld(I(1)), Yld(I(2)), Yld(I(3))))),
		Asg("cnt", Fn(Ps("n"), Blk(Asg("k", I(0)), Wh(Bin("<", N("k"), N("n")), Blk(If(Bin("==", Bin("%", N("k"), I(2)), I(0)), Yld(N("k"))), Asg("k", Bin("+", N("k"), I(1)))))))),
		Asg("nest", Fn(P, For("a", Call("fromto", I(0), I(2)), For("b", Call("fromto", I(0), I(2)), Yld(Bin("+", Bin("*", N("a"), I(10)), N("b"))))))),
		Asg("rec", Fn(Ps("n"), If(Bin(">", N("n"), I(0)), Blk(Yld(N("n")), Call("rec", Bin("-", N("n"), I(1))))))),
		Asg("mkgen", Fn(Ps("base"), Fn(P, Blk(Yld(N("base")), Yld(Bin("+", N("base"), I(1))))))),
		Asg("cg", Call("mkgen", I(10))),
		Asg("cgb", Call("mkgen", I(20))),
		// a generator made by a closure-returning maker whose loop bound is captured
		Asg("mkr", Fn(Ps("n"), Fn(P, For("i", Call("fromto", I(0), N("n")), Yld(N("i")))))),
		Asg("ra", Call("mkr", I(2))),
		Asg("rb", Call("mkr", I(4))),
		Asg("callgen", Fn(P, Blk(Yld(Call("id", I(1))), Asg("x", Call("id", I(2))), Yld(N("x"))))),
		Asg("inner", Fn(P, Yld(I(5)))),
		Asg("yv", Fn(P, Blk(Asg("a", Call("inner")), Yld(N("a"))))),
		Asg("none", Fn(P, I(0))),
		Asg("mkcl", Fn(Ps("c"), Fn(P, Bin("+", N("c"), I(1))))),
		Asg("cl", Call("mkcl", I(7))),
		Asg("ab", Fn(P, For("x", Call("fromto", I(0), I(5)), If(Bin(">", N("x"), I(1)), Ret(N("x")))))),
	}
}

type genExpr struct {
	Name string
	E    T // the iterator expression
}

func baseGens() []genExpr {
	return []genExpr{
		{"fromto", Call("fromto", I(0), I(3))},
		{"elems", Call("elems", L(I(5), I(6)))},
		{"indices", Call("indices", S("ab"))},
		{"lit", Call("lit")},
		{"cnt", Call("cnt", I(4))},
		{"nest", Call("nest")},
		{"rec", Call("rec", I(3))},
		{"captured", Call("cg")},
		{"captured-bound", Call("rb")},
		{"callgen", Call("callgen")},
		{"yieldvalue", Call("yv")},
		{"none", Call("none")},
	}
}

func composeGens(args []genExpr, second []genExpr) []genExpr {
	out := []genExpr{}
	th := func(g genExpr) T { return Fn(P, g.E) }
	for _, g := range args {
		out = append(out,
			genExpr{"map(" + g.Name + ")", Call("map", N("dbl"), th(g))},
			genExpr{"filter(" + g.Name + ")", Call("filter", N("odd"), th(g))},
			genExpr{"take(" + g.Name + ")", Call("take", I(2), th(g))},
		)
		for _, h := range second {
			out = append(out, genExpr{"chain(" + g.Name + "," + h.Name + ")", Call("chain", th(g), th(h))})
		}
	}
	return out
}

type bodyStep struct {
	Name string
	S    []T
}

func bodySteps() []bodyStep {
	return []bodyStep{
		{"none", nil},
		{"call", []T{Asg("t", Call("id", N("i")))}},
		{"closure-call", []T{Asg("t", Call("cl"))}},
		{"arith-depth2", []T{Asg("t", Bin("*", Bin("+", N("i"), I(1)), I(2)))}},
		{"make-closure", []T{Asg("q", Fn(P, N("i")))}},
		{"nested-for", []T{For("j", Call("fromto", I(0), I(2)), Asg("t", N("j")))}},
		{"nested-for-gen", []T{For("j", Call("lit"), Asg("t", Bin("+", N("j"), N("i"))))}},
		{"grow-stack", []T{Asg("t", Call("deep", I(200)))}},
		{"early-return", []T{If(Bin(">", Un("#", N("r")), I(1)), Ret(Bin("+", N("r"), L(I(99)))))}},
		{"assign-loop-var", []T{Asg("i", Bin("+", N("i"), I(100)))}},
		{"write", []T{Call("write", N("i"))}},
		{"abandoned-loop", []T{Asg("t", Call("ab"))}},
	}
}

func collectBody(steps ...bodyStep) T {
	ss := []T{}
	for _, s := range steps {
		ss = append(ss, s.S...)
	}
	ss = append(ss, Asg("r", Bin("+", N("r"), L(N("i")))))
	return Blk(ss...)
}

type placement struct {
	Name string
	F    func(pre []T, loop T) []T // pre: history statements run just before the loop, in the same scope
}

func placements() []placement {
	inFn := func(pre []T, loop T) T {
		return Fn(P, Blk(append(append([]T{Asg("r", L())}, pre...), loop, N("r"))...))
	}
	depth := func(d int) func([]T, T) []T {
		return func(pre []T, loop T) []T {
			out := []T{Asg("run", inFn(pre, loop))}
			prev := "run"
			for i := 1; i < d; i++ {
				nm := "w" + string(rune('a'+i))
				out = append(out, Asg(nm, Fn(P, Call(prev))))
				prev = nm
			}
			return append(out, Call(prev))
		}
	}
	return []placement{
		{"top", func(pre []T, loop T) []T {
			return []T{Asg("r", L()), Blk(append(append([]T{}, pre...), loop, N("r"))...)}
		}},
		{"fn-depth1", depth(1)},
		{"fn-depth2", depth(2)},
		{"fn-depth3", depth(3)},
		{"fn-depth5", depth(5)},
		{"recursion", func(pre []T, loop T) []T {
			body := Blk(append(append([]T{Asg("r", L())}, pre...), loop, IfE(Bin(">", N("n"), I(0)), Bin("+", N("r"), Call("rr", Bin("-", N("n"), I(1)))), N("r")))...)
			return []T{Asg("rr", Fn(Ps("n"), body)), Call("rr", I(2))}
		}},
		{"in-loop-body", func(pre []T, loop T) []T {
			body := Blk(append(append([]T{Asg("r", L())}, pre...), loop, Asg("out", Bin("+", N("out"), L(N("r")))))...)
			return []T{Asg("run", Fn(P, Blk(Asg("out", L()), For("o", Call("fromto", I(0), I(2)), body), N("out")))), Call("run")}
		}},
		{"in-generator", func(pre []T, loop T) []T {
			og := Fn(P, Blk(append(append([]T{Asg("r", L())}, pre...), loop, Yld(N("r")), Yld(I(1)))...))
			return []T{Asg("og", og), Asg("res", L()), For("v", Call("og"), Asg("res", Bin("+", N("res"), L(N("v"))))), N("res")}
		}},
	}
}

type history struct {
	Name string
	S    []T
}

func histories() []history {
	return []history{
		{"none", nil},
		{"earlier-loop", []T{For("x", Call("fromto", I(0), I(2)), Asg("t", N("x")))}},
		{"earlier-nested-calls", []T{Asg("t", Call("id", Call("id", Call("id", I(1)))))}},
		{"abandoned-loop", []T{Asg("t", Call("ab"))}},
		{"earlier-gen-loop", []T{For("x", Call("cg"), Asg("t", N("x")))}},
		{"earlier-loop-over-sibling-closure", []T{For("x", Call("cgb"), Asg("t", N("x"))), For("x", Call("ra"), Asg("t", N("x")))}},
		{"loop-variable-is-existing-local", []T{Asg("i", I(5)), Asg("j", I(6))}},
	}
}

var c02Opt = sess.Options{}

func init() {
	core.Register(&core.Check{
		ID:    "C02",
		Level: "exploration",
		Rule: "loops = iterator expression x body x placement x history: iterator expressions are the closure of 11 base generators (fromto/elems/indices, literal yielders, yield in if/while/nested for, a recursive yielder, a yielder reading a captured variable after being resumed, one calling between yields, one using the value of a yield, one never yielding) under map/filter/take/chain to depth 2 (quick) / partly 3 (thorough), plus all 2- and 3-iterator zips of the base generators; bodies come from the collision alphabet (a call, a closure call, depth-2 arithmetic, closure creation, nested for, stack growth, early return, loop variable assignment, output), singly (quick) and in pairs (thorough); placements: top level, function at call depth 1/2/3/5, recursion, another loop's body, another generator; histories: none, an earlier loop in the same statement, earlier nested calls, an abandoned loop, an earlier generator loop. " +
			"Oracle: the list of values bound to the loop variables, the interleaved output, the loop result and the value of the whole session equal the reference model's. distinct = distinct session text; non-trivial = sessions in which at least one yield was handed to a for loop (all of them except the empty generator)",
		Assumptions: []string{
			"reference model refsem: generators are coroutines with synchronous hand-off",
			"generator-side reads of variables the loop body wrote afterwards are outside the description (D-fork) and skipped",
		},
		Exec:   sessExec(c02Opt),
		Shrink: sessShrink(c02Opt),
		Run:    c02Run,
	})
}

func c02Run(w *core.W) {
	impl.Init()
	defer flushOpcodes(w)
	for _, f := range c02Families(w.Thorough()) {
		w.Family(f.Name)
		ok := true
		f.Each(func(stmts []T) bool {
			runSession(w, Texts(append(genPrelude(), stmts...)...), c02Opt)
			ok = !w.Expired("time budget reached")
			return ok
		})
		if !ok {
			return
		}
	}
}

type progFamily struct {
	Name string
	Each func(emit func(stmts []T) bool)
}

// c02Families is shared with C05 (totality) and C03/C09.
func c02Families(thorough bool) []progFamily {
	base := baseGens()
	d1 := composeGens(base, base[:4])
	gens := append(append([]genExpr{}, base...), d1...)
	d2 := composeGens(d1, base[:2])
	gens = append(gens, d2...)
	if thorough {
		gens = append(gens, composeGens(d2[:60], base[:1])...)
	}
	steps := bodySteps()
	pls := placements()
	hs := histories()
	loopOf := func(g genExpr, body T) T { return For("i", g.E, body) }
	return []progFamily{
		{"generator x body x placement", func(emit func([]T) bool) {
			for _, g := range gens {
				for _, b := range steps {
					for _, p := range pls {
						if !emit(p.F(nil, loopOf(g, collectBody(b)))) {
							return
						}
					}
				}
			}
		}},
		{"generator x body x history", func(emit func([]T) bool) {
			gs := gens
			if !thorough {
				gs = append(append([]genExpr{}, base...), d1[:12]...)
			}
			for _, g := range gs {
				for _, b := range steps {
					for _, h := range hs[1:] {
						for _, p := range []placement{pls[0], pls[1], pls[3], pls[7]} {
							if !emit(p.F(h.S, loopOf(g, collectBody(b)))) {
								return
							}
						}
					}
				}
			}
		}},
		{"zip", func(emit func([]T) bool) {
			zipBody := func(vs []string, extra ...T) T {
				el := make([]T, len(vs))
				for i, v := range vs {
					el[i] = N(v)
				}
				return Blk(append(extra, Asg("r", Bin("+", N("r"), L(L(el...)))))...)
			}
			for _, a := range base {
				for _, b := range base {
					for _, p := range []placement{pls[0], pls[1], pls[5]} {
						for _, st := range []bodyStep{steps[0], steps[1], steps[3], steps[5], steps[6], steps[8]} {
							loop := ForN([]string{"i", "j"}, []T{a.E, b.E}, zipBody([]string{"i", "j"}, st.S...))
							if !emit(p.F(nil, loop)) {
								return
							}
						}
					}
					// the first loop variable is a variable that already exists, the second is new
					preLoop := ForN([]string{"r", "zj"}, []T{a.E, b.E}, Asg("acc", Bin("+", N("acc"), L(L(N("r"), N("zj"))))))
					if !emit([]T{Asg("run", Fn(Ps("r"), Blk(Asg("acc", L()), preLoop, L(N("acc"), N("r"))))), Call("run", I(0))}) {
						return
					}
					third := base[:2]
					if thorough {
						third = base[:6]
					}
					for _, c := range third {
						loop := ForN([]string{"i", "j", "k"}, []T{a.E, b.E, c.E}, zipBody([]string{"i", "j", "k"}))
						if !emit(pls[0].F(nil, loop)) || !emit(pls[1].F(nil, loop)) {
							return
						}
						// four iterators, the third variable one that exists already
						loop4 := ForN([]string{"i", "j", "r", "m"}, []T{a.E, c.E, b.E, base[0].E}, Asg("acc", Bin("+", N("acc"), L(L(N("i"), N("j"), N("r"), N("m"))))))
						if !emit([]T{Asg("run", Fn(Ps("r"), Blk(Asg("acc", L()), loop4, L(N("acc"), N("r"))))), Call("run", I(0))}) {
							return
						}
					}
				}
			}
		}},
		{"body step pairs", func(emit func([]T) bool) {
			gs := base
			if thorough {
				gs = gens
			}
			for _, g := range gs {
				for _, b1 := range steps[1:] {
					for _, b2 := range steps[1:] {
						for _, p := range []placement{pls[0], pls[1]} {
							if !emit(p.F(nil, loopOf(g, collectBody(b1, b2)))) {
								return
							}
						}
					}
				}
			}
		}},
		{"naked yield and loop values", func(emit func([]T) bool) {
			for _, g := range gens {
				// a yield with no enclosing for only evaluates to its operand; the value of a for loop is its last body value
				if !emit([]T{g.E}) || !emit([]T{Asg("h", Fn(P, g.E)), Call("h")}) ||
					!emit([]T{For("i", g.E, N("i"))}) || !emit([]T{Asg("h", Fn(P, For("i", g.E, Bin("+", N("i"), I(1))))), Call("h")}) ||
					!emit([]T{Blk(For("i", g.E, N("i")), I(7))}) {
					return
				}
			}
		}},
	}
}
