// Package refsem is the executable reference model of the documented calc
// language (written from Readme.md, not from the compiler): values, operator
// algebra and a big-step evaluator over syntax trees with coroutine generators.
package refsem

import (
	"fmt"
	"math"
	"strconv"
	"strings"
)

// Kind of a value.
type Kind int

// Value kinds.
const (
	KNil Kind = iota
	KInt
	KFloat
	KBool
	KStr
	KArr
	KFn
)

func (k Kind) String() string {
	return [...]string{"nil", "int", "float", "bool", "string", "array", "function"}[k]
}

// Val is a reference-model value. Arrays and strings are immutable: every
// operation builds a fresh Val.
type Val struct {
	K  Kind
	I  int
	F  float64
	B  bool
	S  string
	A  []Val
	Fn *Closure
}

// Error classes of the language.
const (
	ErrNil   = "nil error"
	ErrType  = "type error"
	ErrZero  = "division by zero"
	ErrIndex = "index error"
	ErrArity = "arity mismatch"
	ErrConv  = "conversion error"
	ErrRead  = "read error"
)

// Domain flags: the description does not define the outcome.
const (
	DShift    = "D-shift"
	DFloatDiv = "D-float-div0"
	DNaN      = "D-nan-order"
	DInexact  = "D-inexact-int-float"
	DNilData  = "D-nil-data"
	DFork     = "D-fork"
	DUseDef   = "D-use-before-def"
	DBigLoop  = "D-fuel"
)

// Constructors.
func Int(i int) Val       { return Val{K: KInt, I: i} }
func Float(f float64) Val { return Val{K: KFloat, F: f} }
func Bool(b bool) Val     { return Val{K: KBool, B: b} }
func Str(s string) Val    { return Val{K: KStr, S: s} }
func Arr(a ...Val) Val    { return Val{K: KArr, A: append([]Val{}, a...)} }

// Nil is the absent value.
var Nil = Val{}

// String renders a value the way write/toa are documented to.
func (v Val) String() string {
	switch v.K {
	case KNil:
		return "nil"
	case KInt:
		return strconv.Itoa(v.I)
	case KFloat:
		return fmt.Sprint(v.F)
	case KBool:
		return strconv.FormatBool(v.B)
	case KStr:
		return v.S
	case KFn:
		return "function"
	case KArr:
		parts := make([]string, len(v.A))
		for i, e := range v.A {
			parts[i] = e.String()
		}
		return "[" + strings.Join(parts, ", ") + "]"
	}
	panic("kind")
}

// Display renders a value as the REPL echoes it (strings quoted).
func (v Val) Display() string {
	if v.K == KStr {
		return "\"" + v.S + "\""
	}
	return v.String()
}

// Abbrev is the abbreviation used by error reports (20 characters).
func (v Val) Abbrev() string {
	s := v.String()
	if len(s) > 20 {
		return s[:17] + "..."
	}
	return s
}

// Canon is an injective, type-tagged rendering used to compare values.
func (v Val) Canon() string {
	switch v.K {
	case KNil:
		return "nil"
	case KInt:
		return "i:" + strconv.Itoa(v.I)
	case KFloat:
		if math.IsNaN(v.F) {
			return "f:NaN"
		}
		return "f:" + strconv.FormatFloat(v.F, 'g', -1, 64)
	case KBool:
		return "b:" + strconv.FormatBool(v.B)
	case KStr:
		return "s:" + strconv.Quote(v.S)
	case KFn:
		return "fn"
	case KArr:
		parts := make([]string, len(v.A))
		for i, e := range v.A {
			parts[i] = e.Canon()
		}
		return "a:[" + strings.Join(parts, ",") + "]"
	}
	panic("kind")
}

func num(v Val) (float64, bool) {
	switch v.K {
	case KInt:
		return float64(v.I), true
	case KFloat:
		return v.F, true
	}
	return 0, false
}

func nilOrType(l, r Val) string {
	if l.K == KNil || r.K == KNil {
		return ErrNil
	}
	return ErrType
}

// Exact reports whether the int converts to float64 without rounding.
func Exact(i int) bool {
	f := float64(i)
	return f < 9.3e18 && f > -9.3e18 && int(f) == i
}

// BinOp applies a binary operator. It returns the value, or an error class,
// and a domain flag when the description leaves the outcome open.
func BinOp(op string, l, r Val) (v Val, errc string, dom string) {
	switch op {
	case "+", "-", "*", "/":
		if l.K == KInt && r.K == KInt {
			switch op {
			case "+":
				return Int(l.I + r.I), "", ""
			case "-":
				return Int(l.I - r.I), "", ""
			case "*":
				return Int(l.I * r.I), "", ""
			default:
				if r.I == 0 {
					return Nil, ErrZero, ""
				}
				if l.I == math.MinInt && r.I == -1 {
					return Int(l.I), "", ""
				}
				return Int(l.I / r.I), "", ""
			}
		}
		lf, lok := num(l)
		rf, rok := num(r)
		if lok && rok {
			if (l.K == KInt && !Exact(l.I)) || (r.K == KInt && !Exact(r.I)) {
				dom = DInexact
			}
			switch op {
			case "+":
				return Float(lf + rf), "", dom
			case "-":
				return Float(lf - rf), "", dom
			case "*":
				return Float(lf * rf), "", dom
			default:
				if rf == 0 {
					return Float(lf / rf), "", DFloatDiv
				}
				return Float(lf / rf), "", dom
			}
		}
		if op == "+" && l.K == KStr && r.K == KStr {
			return Str(l.S + r.S), "", ""
		}
		if op == "+" && l.K == KArr && r.K == KArr {
			a := make([]Val, 0, len(l.A)+len(r.A))
			a = append(append(a, l.A...), r.A...)
			return Val{K: KArr, A: a}, "", ""
		}
		return Nil, nilOrType(l, r), ""
	case "%":
		if l.K == KInt && r.K == KInt {
			if r.I == 0 {
				return Nil, ErrZero, ""
			}
			if r.I == -1 {
				return Int(0), "", ""
			}
			return Int(l.I % r.I), "", ""
		}
		return Nil, nilOrType(l, r), ""
	case "<", ">", "<=", ">=":
		lf, lok := num(l)
		rf, rok := num(r)
		if lok && rok {
			var b bool
			if l.K == KInt && r.K == KInt {
				switch op {
				case "<":
					b = l.I < r.I
				case ">":
					b = l.I > r.I
				case "<=":
					b = l.I <= r.I
				default:
					b = l.I >= r.I
				}
				return Bool(b), "", ""
			}
			if (l.K == KInt && !Exact(l.I)) || (r.K == KInt && !Exact(r.I)) {
				dom = DInexact
			}
			switch op {
			case "<":
				b = lf < rf
			case ">":
				b = lf > rf
			case "<=":
				b = lf <= rf
			default:
				b = lf >= rf
			}
			return Bool(b), "", dom
		}
		return Nil, nilOrType(l, r), ""
	case "&", "&&", "|", "||":
		and := op[0] == '&'
		if l.K == KInt && r.K == KInt {
			if and {
				return Int(l.I & r.I), "", ""
			}
			return Int(l.I | r.I), "", ""
		}
		if l.K == KBool && r.K == KBool {
			if and {
				return Bool(l.B && r.B), "", ""
			}
			return Bool(l.B || r.B), "", ""
		}
		return Nil, nilOrType(l, r), ""
	case "<<", ">>":
		if l.K == KInt && r.K == KInt {
			if r.I < 0 || r.I > 63 || (op == ">>" && l.I < 0) {
				dom = DShift
			}
			if op == "<<" {
				return Int(int(uint64(l.I) << uint64(r.I))), "", dom
			}
			return Int(int(uint64(l.I) >> uint64(r.I))), "", dom
		}
		return Nil, nilOrType(l, r), ""
	case "==", "!=":
		e, errc, dom := WeakEq(l, r)
		if errc != "" {
			return Nil, errc, dom
		}
		if op == "!=" {
			e = !e
		}
		return Bool(e), "", dom
	}
	panic("refsem: unknown binary operator " + op)
}

// WeakEq is the documented equality: any/any, int equals the float of the
// same value, functions never equal, nil is an error.
func WeakEq(l, r Val) (eq bool, errc string, dom string) {
	if l.K == KNil || r.K == KNil {
		return false, ErrNil, ""
	}
	lf, lok := num(l)
	rf, rok := num(r)
	if lok && rok {
		if l.K == KInt && r.K == KInt {
			return l.I == r.I, "", ""
		}
		if (l.K == KInt && !Exact(l.I)) || (r.K == KInt && !Exact(r.I)) {
			dom = DInexact
		}
		return lf == rf, "", dom
	}
	if l.K != r.K {
		return false, "", ""
	}
	switch l.K {
	case KBool:
		return l.B == r.B, "", ""
	case KStr:
		return l.S == r.S, "", ""
	case KFn:
		return false, "", ""
	case KArr:
		if len(l.A) != len(r.A) {
			return false, "", ""
		}
		for i := range l.A {
			e, errc, d := WeakEq(l.A[i], r.A[i])
			if d != "" {
				dom = d
			}
			if errc != "" {
				return false, errc, dom
			}
			if !e {
				return false, "", dom
			}
		}
		return true, "", dom
	}
	return false, "", ""
}

// UnOp applies a unary operator.
func UnOp(op string, x Val) (Val, string, string) {
	switch op {
	case "-":
		return BinOp("*", Int(-1), x)
	case "#":
		switch x.K {
		case KStr:
			return Int(len(x.S)), "", ""
		case KArr:
			return Int(len(x.A)), "", ""
		}
	case "!":
		if x.K == KBool {
			return Bool(!x.B), "", ""
		}
	case "~":
		if x.K == KInt {
			return Int(^x.I), "", ""
		}
	default:
		panic("refsem: unknown unary operator " + op)
	}
	if x.K == KNil {
		return Nil, ErrNil, ""
	}
	return Nil, ErrType, ""
}

func idx(v Val) (int, string) {
	if v.K == KNil {
		return 0, ErrNil
	}
	if v.K != KInt {
		return 0, ErrType
	}
	return v.I, ""
}

// Index1 is a[i].
func Index1(a, i Val) (Val, string) {
	ix, e := idx(i)
	if e != "" {
		return Nil, e
	}
	switch a.K {
	case KStr:
		if ix < 0 || ix >= len(a.S) {
			return Nil, ErrIndex
		}
		return Str(string(a.S[ix])), ""
	case KArr:
		if ix < 0 || ix >= len(a.A) {
			return Nil, ErrIndex
		}
		return a.A[ix], ""
	}
	return Nil, ErrType
}

// Index2 is a[i:j].
func Index2(a, i, j Val) (Val, string) {
	lo, e := idx(i)
	if e != "" {
		return Nil, e
	}
	hi, e := idx(j)
	if e != "" {
		return Nil, e
	}
	switch a.K {
	case KStr:
		if lo < 0 || lo > len(a.S) || hi < lo || hi > len(a.S) {
			return Nil, ErrIndex
		}
		return Str(a.S[lo:hi]), ""
	case KArr:
		if lo < 0 || lo > len(a.A) || hi < lo || hi > len(a.A) {
			return Nil, ErrIndex
		}
		return Val{K: KArr, A: append([]Val{}, a.A[lo:hi]...)}, ""
	}
	return Nil, ErrType
}

// Aton is the documented string-to-number conversion.
func Aton(x Val) (Val, string) {
	if x.K != KStr {
		if x.K == KNil {
			return Nil, ErrType
		}
		return Nil, ErrType
	}
	if i, err := strconv.Atoi(x.S); err == nil {
		return Int(i), ""
	}
	if f, err := strconv.ParseFloat(x.S, 64); err == nil {
		return Float(f), ""
	}
	return Nil, ErrConv
}
