#!/bin/sh
# usage: seedrun.sh <patch.diff> <ID> [ID...]
# Applies a seeded change to /repo's working tree, runs the named quick checks, and undoes the change
# straight afterwards (also on interruption). Prints one line per check: DETECTED / missed / harness-error.
patch=$(readlink -f "$1"); shift
[ -f "$patch" ] || { echo "no patch $patch"; exit 2; }
if [ -n "$(git -C /repo status --porcelain)" ]; then echo "/repo working tree is not clean"; exit 2; fi
restore() { git -C /repo checkout -- . ; git -C /repo clean -fdq -- . 2>/dev/null; }
trap restore EXIT INT TERM
git -C /repo apply "$patch" || { echo "patch does not apply"; exit 2; }
export GOFLAGS=-mod=mod GOPROXY=off GOSUMDB=off GOTOOLCHAIN=local
if ! (cd /repo && go build ./... && go build -tags verif ./...) 2>/tmp/seedrun.build.$$; then echo "BUILD-FAILS"; head -5 /tmp/seedrun.build.$$; rm -f /tmp/seedrun.build.$$; exit 3; fi
rm -f /tmp/seedrun.build.$$
tests=$(cd /repo && go test -count=1 ./... 2>&1 | grep -c "^FAIL")
echo "repo-tests-failing-packages=$tests"
tier=${SEED_TIER:-quick}
# run from a scratch copy of /verif so that evidence and replay files of these runs do not land in /verif
SCR=/tmp/verif-seedrun
mkdir -p $SCR && rm -rf $SCR/replays && rsync -a --delete --exclude .git --exclude evidence --exclude replays --exclude seeded /verif/ $SCR/
for id in "$@"; do
  out=$(VERIF_NOSHRINK=${VERIF_NOSHRINK:-1} $SCR/run.sh $id $tier 2>&1); rc=$?
  nviol=$(echo "$out" | grep -c "^VIOLATION")
  sum=$(echo "$out" | grep -E "^$id $tier:" | tail -1 | sed 's/.*failing_items/failing_items/')
  case $rc in
    1) echo "$id DETECTED ($nviol violation lines; $sum)"; echo "$out" | grep -m2 -A2 "^violation:" | cut -c1-400
       # keep one witness next to a seeded change (a regression test for TestReplays)
       case "$patch" in /verif/seeded/*) f=$(ls $SCR/replays/$id/*.json 2>/dev/null | head -1); [ -n "$f" ] && [ $(stat -c %s "$f") -lt 200000 ] && cp "$f" "$(dirname $patch)/replay-$id.json";; esac ;;
    0) echo "$id missed ($sum)" ;;
    *) echo "$id harness-error rc=$rc"; echo "$out" | grep -m3 "HARNESS ERROR" | cut -c1-300 ;;
  esac
done
