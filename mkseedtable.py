#!/usr/bin/env python3
"""Prints DESIGN §7.1: one row per seeded change (seeded/*/meta.json) with the checks that detect it
(seeded/RESULTS.tsv: own-check pass; seeded/CROSS.tsv: cross runs, optional)."""
import json, glob, os, collections
root = os.path.dirname(os.path.abspath(__file__))
res = collections.defaultdict(dict)
for fn in ('RESULTS.tsv', 'CROSS.tsv'):
    p = os.path.join(root, 'seeded', fn)
    if not os.path.exists(p): continue
    for l in open(p):
        f = l.split()
        if len(f) >= 3 and f[0].startswith('C') and f[1].startswith('C'):
            r = ' '.join(f[2:])
            if res[f[0]].get(f[1]) != 'DETECTED':
                res[f[0]][f[1]] = r
rows = []
for d in sorted([d for d in glob.glob(os.path.join(root, 'seeded', 'C*')) if os.path.isdir(d)]):
    m = json.load(open(os.path.join(d, 'meta.json')))
    sid = m['id']
    det = sorted(k for k, v in res[sid].items() if v == 'DETECTED')
    miss = sorted(k for k, v in res[sid].items() if v != 'DETECTED')
    what = m['what'].split('. ')[0]
    if len(what) > 150: what = what[:147] + '...'
    rows.append((sid, m.get('file', ''), what, ', '.join(det) or '—', ', '.join(miss) or ''))
print('| seeded change | file | what was changed | detected by | run, not detected |')
print('|---|---|---|---|---|')
for r in rows:
    print('| ' + ' | '.join(x.replace('|', '\\|') for x in r) + ' |')
own = sum(1 for sid in res if res[sid].get(sid.split('-')[0]) == 'DETECTED')
print(f'\n{len(rows)} seeded changes; {own} detected by the check of the property they were written against.')
