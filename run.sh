#!/bin/sh
# usage: run.sh <property id> quick|thorough
# Rebuilds the harness against /repo's current working tree (build tag verif) and runs one check.
export GOFLAGS=-mod=mod GOPROXY=off GOSUMDB=off GOTOOLCHAIN=local
VERIF_DIR=$(cd "$(dirname "$0")" && pwd)
export VERIF_DIR
cd "$VERIF_DIR/harness" || exit 2
cp /repo/go.sum go.sum || exit 2
BIN=$(mktemp -d /tmp/vcheck-bin.XXXXXX) || exit 2
trap 'rm -rf "$BIN"' EXIT INT TERM
COVER=""
if [ "$2" = "thorough" ] && [ "$1" != "replay" ]; then
  # thorough tier: measure statement coverage of the subject's packages (recorded in the evidence)
  COVER="-cover -coverpkg=vharness/cmd/vcheck,github.com/paulsonkoly/calc/builtin,github.com/paulsonkoly/calc/combinator,github.com/paulsonkoly/calc/lexer,github.com/paulsonkoly/calc/memory,github.com/paulsonkoly/calc/parser,github.com/paulsonkoly/calc/types/bytecode,github.com/paulsonkoly/calc/types/node,github.com/paulsonkoly/calc/types/node/bc,github.com/paulsonkoly/calc/types/value,github.com/paulsonkoly/calc/types/token,github.com/paulsonkoly/calc/vm"
  export VERIF_COVER=1
fi
if ! go build $COVER -tags verif -o "$BIN/vcheck" ./cmd/vcheck 2>"$BIN/build.err"; then
  # C18 drives memory.Type's exported methods directly; if their signatures changed, the other checks still run
  if [ "$1" != "C18" ] && go build -tags "verif noc18" -o "$BIN/vcheck" ./cmd/vcheck 2>/dev/null; then
    echo "note: built without C18 (memory API differs): $(head -3 "$BIN/build.err" | tr '\n' ' ')" 1>&2
  else
    cat "$BIN/build.err" 1>&2
    echo "harness build failed (does /repo still compile with -tags verif?)" 1>&2
    exit 2
  fi
fi
if [ "$1" = "replay" ]; then
  "$BIN/vcheck" replay "$2"
  exit $?
fi
"$BIN/vcheck" check "$1" --tier "${2:-quick}"
exit $?
