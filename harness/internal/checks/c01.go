package checks

import (
	"strings"

	"vharness/internal/core"
	. "vharness/internal/gen"
	"vharness/internal/impl"
	"vharness/internal/sess"
)

// C01: compiled execution matches the definitional semantics.

func init() {
	core.Register(&core.Check{
		ID:    "C01",
		Level: "exploration",
		Rule: "sessions = standard prelude + one program from the operand-source product (every operand-taking form x operand expressions drawn from every source kind: constant, global, parameter, local, captured, call result, index result, computed array element, temp-register expression, nil) x every embedding context (statement positions: used/discarded, then/else, while/for body, function tail/non-tail, generator body; expression positions: operand depth 0..2 left/right, call argument, array element, index/slice position), plus the statement-position product and the generator and scoping families; " +
			"each session is executed statement by statement on a fresh real VM and on the reference model and compared on (value with type, output, error class); distinct = distinct session text; non-trivial = sessions whose judged statements executed at least one operator, call or loop (all of these families) and were inside the described domain",
		Assumptions: []string{
			"reference model refsem (written from Readme.md, self-tested against all TestCalc rows and Readme examples before the run)",
			"programs the description leaves open (nil stored in arrays / passed as argument, undefined shift counts, float division by zero, generator-side reads of variables the loop body wrote) are skipped and counted, only totality is required of them",
			"tolerance T-nil-bool: nil error and type error are identified when a nil value is used as a condition or under !",
		},
		Exec:   sessExec(sess.Options{}),
		Shrink: sessShrink(sess.Options{}),
		Run:    c01Run,
	})
}

// sessExec is the Exec of checks whose items are plain sessions compared against the reference.
func sessExec(opt sess.Options) func(string) (string, string) {
	return func(payload string) (string, string) {
		impl.Init()
		o := sess.Compare(stmtsOf(payload), opt)
		return o.Sig, o.Detail
	}
}

func sessShrink(opt sess.Options) func(string, string) string {
	return func(payload, sig string) string {
		impl.Init()
		out := sess.Shrink(stmtsOf(payload), func(c []string) bool {
			return sess.Compare(c, opt).Sig == sig
		})
		return payloadOf(out)
	}
}

// runSession executes one session item under the sharding of w.
func runSession(w *core.W, stmts []string, opt sess.Options) {
	if !w.Mine(keyOf(stmts)) {
		return
	}
	opt.Opcodes = opcodeSink
	o := sess.Compare(stmts, opt)
	w.Count("statements_judged", int64(o.Judged))
	w.Count("vm_instructions", int64(o.Steps))
	if o.Skipped != "" {
		k := o.Skipped
		if i := strings.Index(k, " statement "); i > 0 {
			k = k[:i]
		}
		w.Count("skipped:"+k, 1)
	}
	if o.Errors > 0 {
		w.Count("sessions_with_runtime_error", 1)
	}
	if o.ParseErrors > 0 && !opt.AllowParseErrors {
		w.HarnessError("a generated session contains a statement the parser rejects: %v", stmts)
	}
	if o.Sig != "" {
		w.Fail(payloadOf(stmts), o.Sig, o.Detail)
		return
	}
	if (o.Judged > 0 && o.Skipped == "") || (opt.TotalityOnly && o.Executed > 0) {
		w.NonTrivial()
	}
}

var opcodeSink = map[string]int{}

func flushOpcodes(w *core.W) {
	for op := range opcodeSink {
		w.Set("opcodes_executed", op)
	}
}

// forms builds every operand-taking form over the operand list.
func forms(ops []operand, binops []string, f func(name string, s T)) {
	for _, op := range binops {
		for _, a := range ops {
			for _, b := range ops {
				f("bin "+op, Bin(op, a.E, b.E))
			}
		}
	}
	for _, op := range allUnOps {
		for _, a := range ops {
			f("un "+op, Un(op, a.E))
		}
	}
	for _, a := range ops {
		for _, b := range ops {
			f("ix1", Ix(a.E, b.E))
			f("list2", L(a.E, b.E))
			f("call2", Call("second", a.E, b.E))
		}
		f("list1", L(a.E))
		f("call1", Call("id", a.E))
		f("toa", Call("toa", a.E))
		f("write", Call("write", a.E))
		f("aton", Call("aton", a.E))
		f("assign", Blk(Asg("x", a.E), N("x")))
		f("assign-only", Asg("x", a.E))
		f("cond-if", IfE(a.E, I(1), I(2)))
		f("cond-if-noelse", If(a.E, I(1)))
		f("cond-not", IfE(Un("!", a.E), I(1), I(2)))
		f("return", Ret(a.E))
		f("yield", Yld(a.E))
		f("while-cond", Blk(Asg("n", I(0)), Wh(Bin("&", a.E, Bin("<", N("n"), I(2))), Asg("n", Bin("+", N("n"), I(1))))))
	}
	small := []operand{}
	for _, o := range ops {
		switch o.Name {
		case "int:const", "int0:const", "int:temp", "int:call", "int:local", "nil:global", "arr:const":
			small = append(small, o)
		}
	}
	for _, a := range ops {
		for _, b := range small {
			for _, c := range small {
				f("ix2", Ix2(a.E, b.E, c.E))
			}
		}
	}
}

func secondDef() T { return Asg("second", Fn(Ps("a", "b"), N("b"))) }

func c01Run(w *core.W) {
	impl.Init()
	full := w.Thorough()
	binops := []string{"+", "-", "/", "%", "<", "==", "&&", "<<"} // one operator per opcode family and code-generation case
	if full {
		binops = allBinOps
	}
	opt := sess.Options{}
	emit := func(stmts []T) bool {
		all := append([]T{secondDef()}, stmts...)
		runSession(w, session(all), opt)
		return !w.Expired("time budget reached inside family")
	}
	defer flushOpcodes(w)

	w.Family("F0-by-size")
	if !c01BySize(w, emit) {
		return
	}
	// F3: generator families (zips with nested loops, generator x body at two placements)
	w.Family("F3-generators")
	{
		fams := c02Families(false)
		n := 0
		for _, fi := range []int{2, 0} {
			ok := true
			fams[fi].Each(func(stmts []T) bool {
				n++
				if fi == 0 && n%6 != 0 {
					return true // every sixth member of the big product (C02 runs all of it)
				}
				runSession(w, Texts(append(genPrelude(), stmts...)...), opt)
				ok = !w.Expired("time budget reached inside family")
				return ok
			})
			if !ok {
				return
			}
		}
	}
	// F4: scoping skeletons (a reduced slice of C04's product: no padding, every inner shape, update and use)
	w.Family("F4-scoping")
	for _, def := range []string{"none", "param", "local"} {
		for _, inner := range c04InnerOrder {
			for _, upd := range []string{"none", "assign", "grow-locals-assign"} {
				for _, use := range []string{"call", "pass", "through-id", "return", "return-array"} {
					churn := "none"
					if strings.HasPrefix(use, "return") {
						churn = "deep"
					}
					runSession(w, c04Program(c04Dims{true, 0, def, inner, upd, use, churn}), opt)
					if w.Expired("time budget reached inside family") {
						return
					}
				}
			}
		}
	}
	// three-level nesting: the innermost function names a variable of the outermost one (a global by the rules)
	for _, mid := range []string{"", "y = \"my\"", "x = x"} {
		for _, shape := range []string{
			"f = (x, pad) -> {\n  (y) -> {\n    MID\n    (z) -> [x, y, z]\n  }\n}",
			"f = (pad, x) -> {\n  w = \"fw\"\n  (y) -> {\n    MID\n    (z) -> [x, w, z]\n  }\n}",
		} {
			st := []string{"x = \"gx\"", "w = \"gw\"", strings.ReplaceAll(shape, "    MID\n", map[bool]string{true: "", false: "    " + mid + "\n"}[mid == ""]), "a = f(\"ax\", \"ap\")", "b = a(\"ay\")", "b(\"az\")"}
			runSession(w, st, opt)
		}
	}
	// F5: comparisons and their negations in every value position. Operands include NaN, infinities, -0.0 and the
	// int/float boundary, so that `!(a < b)` is not `a >= b`, `a == a` is not always true and `a != b` is not `!(a < b | a > b)`.
	w.Family("F5-comparison-negation")
	{
		vals := []T{I(1), I(2), F(1), F(1.5), Call("aton", S("NaN")), Call("aton", S("+Inf")), Call("aton", S("-Inf")),
			Un("-", F(0)), I(0), S("ab"), L(F(1)), L(Call("aton", S("NaN"))), B(true), N("u"), N("gi"), Call("id", F(2)),
			N("na"), N("fa")} // one array value on both sides: it holds a NaN / a function, so it is not equal to itself
		f5defs := []T{Asg("na", L(I(1), Call("aton", S("NaN")))), Asg("fa", L(N("id")))}
		shapes := []func(c T) T{
			func(c T) T { return c },
			func(c T) T { return Un("!", c) },
			func(c T) T { return Un("!", Un("!", c)) },
		}
		places := []func(e T) []T{
			func(e T) []T { return []T{e} },
			func(e T) []T { return []T{Asg("x", e), N("x")} },
			func(e T) []T { return []T{Call("id", e)} },
			func(e T) []T { return []T{L(e, e)} },
			func(e T) []T { return []T{Bin("&", e, B(true))} },
			func(e T) []T { return []T{Bin("|", B(false), e)} },
			func(e T) []T { return []T{Bin("==", e, B(true))} },
			func(e T) []T { return []T{IfE(e, I(1), I(2))} },
			func(e T) []T {
				return []T{Asg("n", I(0)), Wh(Bin("&", e, Bin("<", N("n"), I(2))), Asg("n", Bin("+", N("n"), I(1)))), N("n")}
			},
			func(e T) []T { return wrapFunc(e) },
			func(e T) []T { return wrapFunc(Ret(e)) },
			func(e T) []T { return wrapFunc(Asg("lb", e), L(N("lb"), Un("!", N("lb")))) },
		}
		for _, op := range []string{"<", "<=", ">", ">=", "==", "!="} {
			for _, a := range vals {
				for _, b := range vals {
					for _, sh := range shapes {
						for _, pl := range places {
							if !emit(append(append([]T{}, f5defs...), pl(sh(Bin(op, a, b)))...)) {
								return
							}
						}
					}
				}
			}
		}
	}
	// F6: variables a call does not assign. A function's variable that this activation has not assigned is empty
	// (nil), whatever an earlier call or expression left behind; with no outer binding of the name both readings of
	// the scoping rule agree (the reference model flags the other case at run time, D-use-before-def).
	w.Family("F6-unassigned-variables")
	{
		shapes := []string{
			"if c v = \"set\"",
			"if c {\n    v = \"set\"\n    w = \"wet\"\n  }",
			"while c {\n    v = \"set\"\n    c = false\n  }",
			"for i <- fromto(0, n) v = i",
			"if c v = \"set\" else w = \"wet\"",
			"for i, j <- fromto(0, n), elems(\"ab\") {\n    v = i\n    w = j\n  }",
		}
		reads := []string{"v", "v == v", "toa(v)", "if c v else v", "x = v"}
		for np := 0; np <= 3; np++ {
			params := []string{"pa", "pb", "pc"}[:np]
			hot := append(append([]string{}, []string{"\"ha\"", "\"hb\"", "\"hc\""}[:np]...), "true", "2")
			cold := append(append([]string{}, []string{"\"ca\"", "\"cb\"", "\"cc\""}[:np]...), "false", "0")
			for _, sh := range shapes {
				for _, rd := range reads {
					def := "f = (" + strings.Join(append(append([]string{}, params...), "c", "n"), ", ") + ") -> {\n  " + sh + "\n  " + rd + "\n}"
					callHot, callCold := "f("+strings.Join(hot, ", ")+")", "f("+strings.Join(cold, ", ")+")"
					for _, sessn := range [][]string{
						{def, callCold},
						{def, callHot, callCold},
						{def, callHot, callCold, callHot, callCold},
						{def, "[\"sa\", \"sb\", \"sc\", \"sd\", \"se\", \"sf\"][0]", callCold},
						{def, "g = () -> [" + callHot + ", toa(" + callCold + ")]", "g()"},
						{def, "for q <- fromto(0, 2) t = " + callHot, "r = []", "for q <- fromto(0, 2) r = r + [toa(" + callCold + ")]", "r"},
					} {
						runSession(w, sessn, opt)
						if w.Expired("time budget reached inside family") {
							return
						}
					}
				}
			}
		}
	}
	// F7: one value used twice. A container produced by every kind of expression (literal, concatenation, concatenation
	// of a concatenation, slice, slice of a concatenation, call result, loop-built, 40 elements) is the operand of two
	// further operations in turn; the source, both results and the source again are then read. Whatever spare room the
	// first operation's operand carries, the second operation must not see or disturb the first one's result.
	w.Family("F7-one-value-two-uses")
	{
		defs := []string{"id = (x) -> x", "gi = 2", "sq = (n) -> {\n  r = []\n  for i <- fromto(0, n) r = r + [i]\n  r\n}"}
		arrSrc := []string{"[1, 2, 3]", "[1, 2, 3] + [4]", "[1, 2] + [3] + [4]", "[1, 2, 3, 4][0:3]", "([1, 2, 3] + [4, 5])[0:4]",
			"([1, 2, 3] + [4, 5])[1:3]", "id([1, 2] + [3])", "sq(5)", "sq(40)", "sq(33) + [1]", "[] + []", "[[1], [2]] + [[3]]", "[gi, gi + 1, gi + 2]", "[gi, 2, 3, gi, gi]", "[1, 2, gi]"}
		arrUse := []string{"b + [5]", "b + [6]", "b + [7, 8]", "b[0:2]", "b[0:2] + [9]", "b[1:#b] + [9]", "[0] + b", "b + b", "b + []"}
		strSrc := []string{"\"abc\"", "\"ab\" + \"c\"", "(\"ab\" + \"cd\")[0:3]", "toa(123) + \"4\""}
		strUse := []string{"b + \"x\"", "b + \"y\"", "b[0:2]", "b[0:2] + \"z\"", "\"w\" + b", "b + b"}
		run := func(srcs, uses []string) bool {
			for _, e := range srcs {
				for _, d1 := range uses {
					for _, d2 := range uses {
						top := append(append([]string{}, defs...), "b = "+e, "l = "+d1, "r = "+d2, "[b, l, r]", "l = "+d2, "[b, l, r]")
						fn := append(append([]string{}, defs...), "f = () -> {\n  b = "+e+"\n  l = "+d1+"\n  r = "+d2+"\n  [b, l, r]\n}", "f()", "f()")
						for _, st := range [][]string{top, fn} {
							runSession(w, st, opt)
							if w.Expired("time budget reached inside family") {
								return false
							}
						}
					}
				}
			}
			return true
		}
		if !run(arrSrc, arrUse) || !run(strSrc, strUse) {
			return
		}
	}
	// F8: expression contexts composed pairwise. outer(inner(operand)) for every pair of the 22 expression contexts and
	// six operands that keep the temp register busy in different ways (none, depth 1, depth 2 left- and right-nested, a
	// call that uses it, an array sum): a sub-expression compiled "self-contained" inside an index, a slice bound, an
	// array element or a call argument still sits to the right of whatever the enclosing operator holds in the register.
	w.Family("F8-composed-expression-contexts")
	{
		inner := []T{I(1), Bin("+", I(1), I(0)), Bin("-", Bin("*", I(1), N("gi")), I(1)), Bin("-", I(3), Bin("*", I(1), N("gi"))), Call("ar", I(1)), Bin("+", L(I(1)), L(I(2)))} // ints are 1: a valid index and slice bound everywhere
		ecs := exprContexts()
		for _, outer := range ecs {
			for _, in := range ecs {
				for _, op := range inner {
					e := outer.F(in.F(op))
					if !emit([]T{e}) || !emit(wrapFunc(e)) {
						return
					}
				}
			}
		}
	}
	// F2: statement-position product
	w.Family("F2-statement-position")
	lv := 1
	if full {
		lv = 2
	}
	for _, st := range stmtForms(lv) {
		for _, sc := range stmtContexts() {
			if !emit(sc.F(st)) {
				return
			}
		}
	}
	// F1a: operand-source product in every statement context
	w.Family("F1-operand-x-stmt-context")
	for _, sc := range stmtContexts() {
		scope := scTop
		if sc.Func {
			scope = scFunc
		}
		ops := operands(scope, full)
		ok := true
		forms(ops, binops, func(name string, s T) {
			if ok {
				ok = emit(sc.F(s))
			}
		})
		if !ok {
			return
		}
	}
	// F1b: operand-source product in every expression context, at top level and as function tail
	w.Family("F1-operand-x-expr-context")
	for eci, ec := range exprContexts() {
		for _, fn := range []bool{false, true} {
			if fn && !full && eci%2 == 1 {
				continue // quick: inside the function wrapper every other expression context (all of them at top level)
			}
			scope := scTop
			if fn {
				scope = scFunc
			}
			ops := operands(scope, full)
			ok := true
			bo := binops
			if !full {
				bo = []string{"+", "-", "/", "<"} // quick: one operator per code path (INC/concat, operand order, zero check, relational)
			}
			forms(ops, bo, func(name string, s T) {
				if !ok {
					return
				}
				if !isExprForm(name) {
					return
				}
				e := ec.F(s)
				if fn {
					ok = emit(wrapFunc(e))
				} else {
					ok = emit([]T{e})
				}
			})
			if !ok {
				return
			}
		}
	}
}

// c01BySize: every statement of at most n nodes over a reduced alphabet, at top level and as a function body.
func c01BySize(w *core.W, emit func([]T) bool) bool {
	g := &Grammar{
		Leaves: []T{I(1), I(2), F(1.5), B(true), S("ab"), L(I(1), I(2)), N("gi"), N("u"), N("x")},
		BinOps: []string{"+", "-", "/", "%", "<", "==", "&"}, UnOps: allUnOps, Calls: []string{"id"}, Names: []string{"x"},
		Index: true, Lists: true, Stmts: true,
	}
	maxN := 4
	if w.Thorough() {
		maxN = 5
	}
	for n := 1; n <= maxN; n++ {
		ok := g.EachStmt(n, func(s T) bool {
			return emit([]T{s}) && emit([]T{Asg("h", Fn(Ps("x"), s)), Call("h", I(2))}) && emit([]T{Asg("h", Fn(Ps("x"), Blk(s, N("x")))), Call("h", I(2))})
		})
		if !ok {
			return false
		}
	}
	return true
}

func isExprForm(name string) bool {
	switch name {
	case "assign", "assign-only", "cond-if", "cond-if-noelse", "cond-not", "return", "yield", "while-cond":
		return false
	}
	return true
}
