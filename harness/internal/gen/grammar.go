package gen

// Grammar is a size-bounded closure of the language's constructors over small
// alphabets (SmallCheck style): every tree with exactly n nodes is enumerated
// once, smaller sizes first, in a fixed order.
type Grammar struct {
	Leaves   []T      // expressions of size 1
	BinOps   []string // binary operators
	UnOps    []string // unary operators
	Calls    []string // names of one-argument functions to call
	Names    []string // assignable variables
	Index    bool     // a[i]
	Slice    bool     // a[i:j]
	Lists    bool     // [e], [e, e]
	Funcs    bool     // (p) -> e  literals (called through Calls with name "ap")
	Stmts    bool     // statement forms
	exprMemo map[int][]T
	stmtMemo map[int][]T
	MaxMemo  int // sizes up to MaxMemo are memoised (default 5)
}

func (g *Grammar) memoLimit() int {
	if g.MaxMemo == 0 {
		return 5
	}
	return g.MaxMemo
}

// Exprs returns all expressions with exactly n nodes.
func (g *Grammar) Exprs(n int) []T {
	if g.exprMemo == nil {
		g.exprMemo = map[int][]T{}
	}
	if r, ok := g.exprMemo[n]; ok {
		return r
	}
	out := []T{}
	g.EachExpr(n, func(t T) bool { out = append(out, t); return true })
	if n <= g.memoLimit() {
		g.exprMemo[n] = out
	}
	return out
}

// EachExpr streams all expressions with exactly n nodes.
func (g *Grammar) EachExpr(n int, f func(T) bool) bool {
	if n <= 0 {
		return true
	}
	if n == 1 {
		for _, l := range g.Leaves {
			if !f(l) {
				return false
			}
		}
		if g.Lists {
			if !f(L()) {
				return false
			}
		}
		return true
	}
	// unary forms over size n-1
	for _, x := range g.Exprs(n - 1) {
		for _, op := range g.UnOps {
			if !f(Un(op, x)) {
				return false
			}
		}
		for _, c := range g.Calls {
			if !f(Call(c, x)) {
				return false
			}
		}
		if g.Lists {
			if !f(L(x)) {
				return false
			}
		}
		if g.Funcs {
			if !f(Call("ap", Fn(Ps("p"), x))) {
				return false
			}
		}
	}
	// binary forms: sizes a + b = n - 1
	for a := 1; a <= n-2; a++ {
		b := n - 1 - a
		for _, l := range g.Exprs(a) {
			for _, r := range g.Exprs(b) {
				for _, op := range g.BinOps {
					if !f(Bin(op, l, r)) {
						return false
					}
				}
				if g.Index {
					if !f(Ix(l, r)) {
						return false
					}
				}
				if g.Lists {
					if !f(L(l, r)) {
						return false
					}
				}
			}
		}
	}
	if g.Slice {
		for a := 1; a <= n-3; a++ {
			for b := 1; a+b <= n-2; b++ {
				c := n - 1 - a - b
				for _, x := range g.Exprs(a) {
					for _, y := range g.Exprs(b) {
						for _, z := range g.Exprs(c) {
							if !f(Ix2(x, y, z)) {
								return false
							}
						}
					}
				}
			}
		}
	}
	return true
}

// StmtList returns all statements with exactly n nodes (expressions included).
func (g *Grammar) StmtList(n int) []T {
	if g.stmtMemo == nil {
		g.stmtMemo = map[int][]T{}
	}
	if r, ok := g.stmtMemo[n]; ok {
		return r
	}
	out := []T{}
	g.EachStmt(n, func(t T) bool { out = append(out, t); return true })
	if n <= g.memoLimit() {
		g.stmtMemo[n] = out
	}
	return out
}

// EachStmt streams all statements with exactly n nodes. Loops are produced
// only in a terminating skeleton (a counter bounds them).
func (g *Grammar) EachStmt(n int, f func(T) bool) bool {
	if !g.EachExpr(n, f) {
		return false
	}
	if !g.Stmts || n < 2 {
		return true
	}
	for _, e := range g.Exprs(n - 1) {
		for _, v := range g.Names {
			if !f(Asg(v, e)) {
				return false
			}
		}
		if !f(Ret(e)) || !f(Yld(e)) {
			return false
		}
	}
	for _, s := range g.StmtList(n - 1) {
		// bounded loops around a statement
		if !f(Blk(Asg("k", I(0)), Wh(Bin("<", N("k"), I(2)), Blk(Asg("k", Bin("+", N("k"), I(1))), s)))) {
			return false
		}
		if !f(For("i", Call("fromto", I(0), I(2)), s)) {
			return false
		}
	}
	for a := 1; a <= n-2; a++ {
		b := n - 1 - a
		for _, c := range g.Exprs(a) {
			for _, s := range g.StmtList(b) {
				if !f(If(c, s)) {
					return false
				}
			}
		}
		for _, s1 := range g.StmtList(a) {
			for _, s2 := range g.StmtList(b) {
				if !f(Blk(s1, s2)) {
					return false
				}
			}
		}
	}
	for a := 1; a <= n-3; a++ {
		for b := 1; a+b <= n-2; b++ {
			c := n - 1 - a - b
			for _, x := range g.Exprs(a) {
				for _, y := range g.StmtList(b) {
					for _, z := range g.StmtList(c) {
						if !f(IfE(x, y, z)) {
							return false
						}
					}
				}
			}
		}
	}
	return true
}
