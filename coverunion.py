#!/usr/bin/env python3
"""Lists the statement blocks of the subject that NO check's thorough tier executed
(intersection of coverage/<ID>.uncovered.txt), grouped by file, with the source lines."""
import glob, os, sys
root = os.path.dirname(os.path.abspath(__file__))
sets = []
for f in sorted(glob.glob(os.path.join(root, 'coverage', 'C*.uncovered.txt'))):
    sets.append(set(l.strip() for l in open(f) if l.strip()))
if not sets:
    sys.exit('no coverage/*.uncovered.txt (run the thorough tiers first)')
never = set.intersection(*sets)
byfile = {}
for b in never:
    name, span = b.rsplit(':', 1)
    byfile.setdefault(name, []).append(span)
print(f'{len(sets)} checks; {len(never)} blocks executed by none of them')
for name in sorted(byfile):
    if name.endswith('verif_on.go') or name.endswith('verif_off.go'):
        continue
    src = open(os.path.join('/repo', name)).read().split('\n')
    spans = sorted(byfile[name], key=lambda s: int(s.split('.')[0]))
    print(f'\n== {name}: {len(spans)} blocks')
    for sp in spans:
        a, b = sp.split(',')
        l0, l1 = int(a.split('.')[0]), int(b.split('.')[0])
        text = ' '.join(x.strip() for x in src[l0-1:min(l1, l0+2)])
        print(f'  {sp:24s} {text[:110]}')
