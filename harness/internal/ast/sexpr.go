package ast

import (
	"fmt"
	"strconv"
	"strings"

	"github.com/paulsonkoly/calc/types/node"
)

// Encode writes a tree as an s-expression (replay payloads must not depend on the parser under test).
func Encode(n node.Type) string {
	var b strings.Builder
	enc(&b, n)
	return b.String()
}

func encList(b *strings.Builder, head string, xs []node.Type) {
	b.WriteString("(" + head)
	for _, x := range xs {
		b.WriteByte(' ')
		enc(b, x)
	}
	b.WriteByte(')')
}

func enc(b *strings.Builder, n node.Type) {
	switch t := n.(type) {
	case node.Int:
		fmt.Fprintf(b, "(int %d)", int(t))
	case node.Float:
		fmt.Fprintf(b, "(float %s)", strconv.FormatFloat(float64(t), 'g', -1, 64))
	case node.Bool:
		fmt.Fprintf(b, "(bool %v)", bool(t))
	case node.String:
		fmt.Fprintf(b, "(str %s)", strconv.Quote(string(t)))
	case node.Name:
		fmt.Fprintf(b, "(name %s)", string(t))
	case node.List:
		encList(b, "list", t.Elems)
	case node.BinOp:
		encList(b, "bin "+strconv.Quote(t.Op), []node.Type{t.Left, t.Right})
	case node.UnOp:
		encList(b, "un "+strconv.Quote(t.Op), []node.Type{t.Target})
	case node.IndexAt:
		encList(b, "ix", []node.Type{t.Ary, t.At})
	case node.IndexFromTo:
		encList(b, "ix2", []node.Type{t.Ary, t.From, t.To})
	case node.Call:
		encList(b, "call "+string(t.Name.(node.Name)), t.Arguments.Elems)
	case node.Function:
		b.WriteString("(fn ")
		encList(b, "params", t.Parameters.Elems)
		b.WriteByte(' ')
		enc(b, t.Body)
		b.WriteByte(')')
	case node.Assign:
		encList(b, "asg "+string(t.VarRef.(node.Name)), []node.Type{t.Value})
	case node.Return:
		encList(b, "ret", []node.Type{t.Target})
	case node.Yield:
		encList(b, "yld", []node.Type{t.Target})
	case node.If:
		encList(b, "if", []node.Type{t.Condition, t.TrueCase})
	case node.IfElse:
		encList(b, "ife", []node.Type{t.Condition, t.TrueCase, t.FalseCase})
	case node.While:
		encList(b, "wh", []node.Type{t.Condition, t.Body})
	case node.For:
		b.WriteString("(for ")
		encList(b, "vars", t.VarRefs.Elems)
		b.WriteByte(' ')
		encList(b, "iters", t.Iterators.Elems)
		b.WriteByte(' ')
		enc(b, t.Body)
		b.WriteByte(')')
	case node.Block:
		encList(b, "blk", t.Body)
	default:
		panic(fmt.Sprintf("ast: Encode %T", n))
	}
}

type sx struct {
	atom string
	kids []*sx
	list bool
}

func parseSx(s string, i *int) *sx {
	for *i < len(s) && s[*i] == ' ' {
		*i++
	}
	if s[*i] == '(' {
		*i++
		n := &sx{list: true}
		for {
			for *i < len(s) && s[*i] == ' ' {
				*i++
			}
			if s[*i] == ')' {
				*i++
				return n
			}
			n.kids = append(n.kids, parseSx(s, i))
		}
	}
	if s[*i] == '"' {
		j := *i + 1
		for s[j] != '"' {
			if s[j] == '\\' {
				j++
			}
			j++
		}
		j++
		a := s[*i:j]
		*i = j
		return &sx{atom: a}
	}
	j := *i
	for j < len(s) && s[j] != ' ' && s[j] != ')' && s[j] != '(' {
		j++
	}
	a := s[*i:j]
	*i = j
	return &sx{atom: a}
}

// Decode reads back an Encode result.
func Decode(s string) node.Type {
	i := 0
	return dec(parseSx(s, &i))
}

func decAll(xs []*sx) []node.Type {
	r := make([]node.Type, 0, len(xs))
	for _, x := range xs {
		r = append(r, dec(x))
	}
	return r
}

func unq(s string) string {
	r, err := strconv.Unquote(s)
	if err != nil {
		panic(err)
	}
	return r
}

func dec(x *sx) node.Type {
	h := x.kids[0].atom
	k := x.kids[1:]
	switch h {
	case "int":
		v, _ := strconv.Atoi(k[0].atom)
		return node.Int(v)
	case "float":
		v, _ := strconv.ParseFloat(k[0].atom, 64)
		return node.Float(v)
	case "bool":
		return node.Bool(k[0].atom == "true")
	case "str":
		return node.String(unq(k[0].atom))
	case "name":
		return node.Name(k[0].atom)
	case "list":
		return node.List{Elems: decAll(k)}
	case "bin":
		return node.BinOp{Op: unq(k[0].atom), Left: dec(k[1]), Right: dec(k[2])}
	case "un":
		return node.UnOp{Op: unq(k[0].atom), Target: dec(k[1])}
	case "ix":
		return node.IndexAt{Ary: dec(k[0]), At: dec(k[1])}
	case "ix2":
		return node.IndexFromTo{Ary: dec(k[0]), From: dec(k[1]), To: dec(k[2])}
	case "call":
		return node.Call{Name: node.Name(k[0].atom), Arguments: node.List{Elems: decAll(k[1:])}}
	case "fn":
		return node.Function{Parameters: node.List{Elems: decAll(k[0].kids[1:])}, Body: dec(k[1])}
	case "asg":
		return node.Assign{VarRef: node.Name(k[0].atom), Value: dec(k[1])}
	case "ret":
		return node.Return{Target: dec(k[0])}
	case "yld":
		return node.Yield{Target: dec(k[0])}
	case "if":
		return node.If{Condition: dec(k[0]), TrueCase: dec(k[1])}
	case "ife":
		return node.IfElse{Condition: dec(k[0]), TrueCase: dec(k[1]), FalseCase: dec(k[2])}
	case "wh":
		return node.While{Condition: dec(k[0]), Body: dec(k[1])}
	case "for":
		return node.For{VarRefs: node.List{Elems: decAll(k[0].kids[1:])}, Iterators: node.List{Elems: decAll(k[1].kids[1:])}, Body: dec(k[2])}
	case "blk":
		return node.Block{Body: decAll(k)}
	}
	panic("ast: Decode " + h)
}
