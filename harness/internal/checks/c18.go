//go:build !noc18

package checks

import (
	"encoding/json"
	"fmt"
	"strings"

	"github.com/paulsonkoly/calc/memory"
	"github.com/paulsonkoly/calc/types/value"

	"vharness/internal/core"
	"vharness/internal/impl"
	"vharness/internal/sess"
)

// C18: frames are isolated under any growth — a variable holds its last written value.
//
// Explicit-state search over legal sequences of memory operations as the VM
// issues them, on the real memory.Type, against a boring model (a list of
// frames of tagged slots). Values are fresh tags, the state key is the
// bookkeeping only (data independence: memory.go never inspects a value).

type mFrame struct {
	slots []int // locals, 0 = nil
	ops   []int // operand stack above the return address
	ret   int   // tag of the return address slot
}

type mCap struct {
	frame *mFrame // nil: captured outside of any call
}

type mMem struct {
	real     *memory.Type
	base     []int     // operands below the first frame
	frames   []*mFrame // call frames, innermost last
	closures []*mFrame // closure stack (nil entries: captured outside any call)
	parent   int       // index of the forking memory, -1 for main
	dead     bool
}

type c18World struct {
	mems    []*mMem
	cur     int
	caps    []*memory.Frame // captured frame headers held by "function values"
	capsM   []*mFrame       // what each one must show
	pool    []*memory.Type  // destroyed memories available for recycling
	globals map[string]int
	nextTag int
}

func (w *c18World) tag() int { w.nextTag++; return w.nextTag }

func tv(t int) value.Type {
	if t == 0 {
		return value.Nil
	}
	return value.NewInt(t)
}

type c18Op struct {
	Kind    string
	A, B, C int
}

func (o c18Op) String() string {
	switch o.Kind {
	case "push", "set", "fork", "switch":
		return fmt.Sprintf("%s(%d)", o.Kind, o.A)
	case "call":
		return fmt.Sprintf("call(args=%d,locals=%d,cap=%d)", o.A, o.B, o.C)
	}
	return o.Kind
}

func c18Alphabet() []c18Op {
	ops := []c18Op{
		{Kind: "push", A: 1}, {Kind: "push", A: 2}, {Kind: "push", A: 126}, {Kind: "push", A: 127}, {Kind: "push", A: 128}, {Kind: "push", A: 129}, {Kind: "push", A: 300},
		{Kind: "pop"}, {Kind: "popall"},
		{Kind: "func"},
		{Kind: "ret"},
		{Kind: "set", A: 0}, {Kind: "set", A: -1},
		{Kind: "setg"},
		{Kind: "fork", A: 0}, {Kind: "fork", A: 1},
		{Kind: "switch", A: -1}, {Kind: "switch", A: 1},
		{Kind: "destroy"},
	}
	for _, nw := range [][2]int{{0, 0}, {2, 1}, {1, 127}, {0, 128}, {1, 255}, {0, 300}} {
		for _, c := range []int{-1, 0, 1} { // no capture / oldest / newest captured frame
			ops = append(ops, c18Op{Kind: "call", A: nw[0], B: nw[1], C: c})
		}
	}
	return ops
}

func newWorld() *c18World {
	return &c18World{mems: []*mMem{{real: memory.New(), parent: -1}}, globals: map[string]int{}}
}

func (m *mMem) top() *mFrame {
	if len(m.frames) == 0 {
		return nil
	}
	return m.frames[len(m.frames)-1]
}

func (m *mMem) opsRef() *[]int {
	if f := m.top(); f != nil {
		return &f.ops
	}
	return &m.base
}

// enabled decides whether op is legal in the current state (the VM never issues it otherwise).
func (w *c18World) enabled(o c18Op) bool {
	m := w.mems[w.cur]
	switch o.Kind {
	case "pop", "popall":
		return len(*m.opsRef()) > 0
	case "func":
		return len(w.caps) < 3
	case "ret":
		// a forked context never returns from the frame it was forked in
		if m.parent >= 0 {
			return len(m.frames) > 1
		}
		return len(m.frames) > 0
	case "set":
		f := m.top()
		return f != nil && len(f.slots) > 0 && (o.A == 0 || len(f.slots) > 1)
	case "call":
		if len(m.frames) >= 3 {
			return false
		}
		if o.C == 0 {
			return len(w.caps) >= 1
		}
		if o.C == 1 {
			return len(w.caps) >= 2
		}
		return true
	case "fork":
		live := 0
		for _, x := range w.mems {
			if !x.dead {
				live++
			}
		}
		if live >= 3 {
			return false
		}
		if o.A == 1 {
			return len(w.pool) > 0
		}
		return true
	case "switch":
		if o.A == -1 {
			return m.parent >= 0
		}
		for i, x := range w.mems {
			if !x.dead && x.parent == w.cur && i != w.cur {
				return true
			}
		}
		return false
	case "destroy":
		if m.parent < 0 {
			return false
		}
		for _, x := range w.mems {
			if !x.dead && x.parent == w.cur {
				return false
			}
		}
		return true
	}
	return true
}

// apply performs op on the real memory and on the model.
func (w *c18World) apply(o c18Op) {
	m := w.mems[w.cur]
	switch o.Kind {
	case "push":
		for i := 0; i < o.A; i++ {
			t := w.tag()
			m.real.Push(tv(t))
			r := m.opsRef()
			*r = append(*r, t)
		}
	case "pop":
		r := m.opsRef()
		got := m.real.Pop()
		want := (*r)[len(*r)-1]
		*r = (*r)[:len(*r)-1]
		if x, _ := got.ToInt(); x != want {
			panic(fmt.Sprintf("DIVERGE pop returned %v, the model holds tag %d", got, want))
		}
	case "popall":
		r := m.opsRef()
		for len(*r) > 0 {
			got := m.real.Pop()
			want := (*r)[len(*r)-1]
			*r = (*r)[:len(*r)-1]
			if x, _ := got.ToInt(); x != want {
				panic(fmt.Sprintf("DIVERGE pop returned %v, the model holds tag %d", got, want))
			}
		}
	case "func":
		w.caps = append(w.caps, m.real.CaptureTop())
		w.capsM = append(w.capsM, m.top())
	case "call":
		args := make([]int, o.A)
		for i := range args {
			args[i] = w.tag()
			m.real.Push(tv(args[i]))
		}
		localCnt := o.A + o.B
		m.real.PushFrame(o.A, localCnt)
		var hdr *memory.Frame
		var mc *mFrame
		switch o.C {
		case -1:
			empty := memory.Frame{}
			hdr = &empty
		case 0:
			hdr, mc = w.caps[0], w.capsM[0]
		case 1:
			hdr, mc = w.caps[len(w.caps)-1], w.capsM[len(w.capsM)-1]
		}
		m.real.PushClosure(hdr)
		ret := w.tag()
		m.real.Push(tv(ret))
		f := &mFrame{slots: make([]int, localCnt), ret: ret}
		copy(f.slots, args)
		m.frames = append(m.frames, f)
		m.closures = append(m.closures, mc)
	case "ret":
		f := m.top()
		ip := m.real.IP()
		if x, _ := ip.ToInt(); ip == nil || x != f.ret {
			panic(fmt.Sprintf("DIVERGE return address reads %v, the model holds tag %d", ip, f.ret))
		}
		m.real.PopFrame()
		m.real.PopClosure()
		m.frames = m.frames[:len(m.frames)-1]
		m.closures = m.closures[:len(m.closures)-1]
		t := w.tag()
		m.real.Push(tv(t))
		r := m.opsRef()
		*r = append(*r, t)
	case "set":
		f := m.top()
		i := o.A
		if i < 0 {
			i = len(f.slots) - 1
		}
		t := w.tag()
		m.real.Set(i, tv(t))
		f.slots[i] = t
	case "setg":
		t := w.tag()
		m.real.SetGlobal("g", tv(t))
		w.globals["g"] = t
	case "fork":
		var reuse *memory.Type
		if o.A == 1 {
			reuse = w.pool[len(w.pool)-1]
			w.pool = w.pool[:len(w.pool)-1]
		}
		child := &mMem{real: m.real.Clone(reuse), parent: w.cur}
		if f := m.top(); f != nil {
			cf := &mFrame{slots: append([]int{}, f.slots...), ops: append([]int{}, f.ops...), ret: f.ret}
			child.frames = []*mFrame{cf}
		}
		child.closures = append([]*mFrame{}, m.closures...)
		w.mems = append(w.mems, child)
		w.cur = len(w.mems) - 1
	case "switch":
		if o.A == -1 {
			w.cur = m.parent
		} else {
			for i, x := range w.mems {
				if !x.dead && x.parent == w.cur && i != w.cur {
					w.cur = i
					break
				}
			}
		}
	case "destroy":
		m.real.Release()
		m.dead = true
		w.pool = append(w.pool, m.real)
		w.cur = m.parent
	}
}

// check compares the whole live content of every memory and every captured frame with the model.
func (w *c18World) check() string {
	for mi, m := range w.mems {
		if m.dead {
			continue
		}
		st := m.real.VerifState()
		fp := m.real.VerifFP()
		stack := m.real.VerifStack()
		wantSP := len(m.base)
		for _, f := range m.frames {
			wantSP += len(f.slots) + 1 + len(f.ops)
		}
		if st.SP != wantSP || st.Frames != len(m.frames) || st.Closures != len(m.closures) {
			return fmt.Sprintf("memory %d bookkeeping sp=%d frames=%d closures=%d, model sp=%d frames=%d closures=%d", mi, st.SP, st.Frames, st.Closures, wantSP, len(m.frames), len(m.closures))
		}
		pos := 0
		cmp := func(what string, want []int) string {
			for i, t := range want {
				got := stack[pos+i]
				x, isInt := got.ToInt()
				if (t == 0 && !got.IsNil()) || (t != 0 && (!isInt || x != t)) {
					return fmt.Sprintf("memory %d %s slot %d reads %v, last written tag %d", mi, what, i, got, t)
				}
			}
			pos += len(want)
			return ""
		}
		if d := cmp("top-level operands", m.base); d != "" {
			return d
		}
		for fi, f := range m.frames {
			if fp[2*fi] != pos || fp[2*fi+1] != pos+len(f.slots) {
				return fmt.Sprintf("memory %d frame %d pointers (%d,%d), model (%d,%d)", mi, fi, fp[2*fi], fp[2*fi+1], pos, pos+len(f.slots))
			}
			if d := cmp(fmt.Sprintf("frame %d local", fi), f.slots); d != "" {
				return d
			}
			if d := cmp(fmt.Sprintf("frame %d return address", fi), []int{f.ret}); d != "" {
				return d
			}
			if d := cmp(fmt.Sprintf("frame %d operand", fi), f.ops); d != "" {
				return d
			}
		}
		// accessor views of the top frame and of the captured frame on top of the closure stack
		if f := m.top(); f != nil {
			for i, t := range f.slots {
				got := m.real.LookUpLocal(i)
				if x, _ := got.ToInt(); (t == 0 && !got.IsNil()) || (t != 0 && x != t) {
					return fmt.Sprintf("memory %d LookUpLocal(%d) reads %v, last written tag %d", mi, i, got, t)
				}
			}
		}
		if n := len(m.closures); n > 0 && m.closures[n-1] != nil {
			for i, t := range m.closures[n-1].slots {
				got := m.real.LookUpClosure(i)
				if x, _ := got.ToInt(); (t == 0 && !got.IsNil()) || (t != 0 && x != t) {
					return fmt.Sprintf("memory %d LookUpClosure(%d) reads %v, the captured variable was last written tag %d", mi, i, got, t)
				}
			}
		}
		if got := m.real.LookUpGlobal("g"); true {
			x, _ := got.ToInt()
			if x != w.globals["g"] {
				return fmt.Sprintf("memory %d global g reads %v, last written tag %d", mi, got, w.globals["g"])
			}
		}
	}
	for ci, h := range w.caps {
		mf := w.capsM[ci]
		if mf == nil {
			if len(*h) != 0 {
				return fmt.Sprintf("captured frame %d (outside any call) has %d slots", ci, len(*h))
			}
			continue
		}
		if len(*h) != len(mf.slots) {
			return fmt.Sprintf("captured frame %d has %d slots, the defining call has %d", ci, len(*h), len(mf.slots))
		}
		for i, t := range mf.slots {
			got := (*h)[i]
			if x, _ := got.ToInt(); (t == 0 && !got.IsNil()) || (t != 0 && x != t) {
				return fmt.Sprintf("captured frame %d variable %d reads %v, last written tag %d", ci, i, got, t)
			}
		}
	}
	return ""
}

// key is the canonical state: bookkeeping only.
func (w *c18World) key() string {
	var b strings.Builder
	fmt.Fprintf(&b, "cur%d;", w.cur)
	for _, m := range w.mems {
		if m.dead {
			b.WriteString("dead;")
			continue
		}
		st := m.real.VerifState()
		fmt.Fprintf(&b, "p%d sp%d len%d cl%d fp%v;", m.parent, st.SP, st.StackLen, st.Closures, m.real.VerifFP())
	}
	for _, mf := range w.capsM {
		// which live frame (if any) each captured header refers to
		where := "detached"
		for mi, m := range w.mems {
			for fi, f := range m.frames {
				if f == mf && !m.dead {
					where = fmt.Sprintf("m%df%d", mi, fi)
				}
			}
		}
		if mf == nil {
			where = "none"
		}
		b.WriteString(where + ",")
	}
	fmt.Fprintf(&b, "pool%d", len(w.pool))
	for _, p := range w.pool {
		fmt.Fprintf(&b, "/%d", p.VerifState().StackLen)
	}
	return b.String()
}

// c18Replay replays a path on a fresh world; it returns the divergence, if any, and the final key.
func c18Replay(path []int) (sig, detail, key string, w *c18World) {
	al := c18Alphabet()
	w = newWorld()
	names := []string{}
	defer func() {
		if r := recover(); r != nil {
			msg := fmt.Sprint(r)
			if strings.HasPrefix(msg, "DIVERGE") {
				sig, detail = "memory-diverges-from-model", fmt.Sprintf("after %v: %s", names, msg)
			} else {
				sig, detail = "memory-panic@"+impl.PanicSite(), fmt.Sprintf("after %v: %s", names, msg)
			}
		}
	}()
	for _, oi := range path {
		o := al[oi]
		if !w.enabled(o) {
			return "harness:disabled-op-in-path", fmt.Sprint(names, o), "", w
		}
		names = append(names, o.String())
		w.apply(o)
		if d := w.check(); d != "" {
			return "variable-lost-its-value", fmt.Sprintf("after %v: %s", names, d), "", w
		}
	}
	return "", "", w.key(), w
}

func init() {
	core.Register(&core.Check{
		ID:      "C18",
		Level:   "model_checking",
		Workers: 1,
		Rule: "breadth-first search over all legal sequences, to depth 5 (quick) / 6 (thorough), of 37 memory operations as the VM issues them on the real memory.Type: push bursts of 1/2/126/127/128/129/300 values, pop, pop all, capture the top frame for a function value, call with (args, locals) in {(0,0),(2,1),(1,127),(0,128),(1,255),(0,300)} and no / the oldest / the newest captured frame, return, set first / last local, set global, fork a context (fresh or recycled memory), switch to parent / child, destroy a context; every written value is a fresh tag. After every transition the whole live content of every memory (all frames' locals, return addresses, operands), the accessor views (LookUpLocal, LookUpClosure, LookUpGlobal) and every captured frame are compared with a list-of-frames model in which a captured frame is the definer's live frame until it returns. " +
			"Successors are built by replaying the shortest path on a fresh instance; states are deduplicated on (current memory, sp, stack length, frame pointers, closure depth per memory, which frame each captured header refers to, recycle pool). Plus a program-level twin (every order of three variable-introducing constructs - assignment, for, zip over existing and new variables, inner function - in one function, all variables tagged and read back, compared with the reference model; closures created in generator contexts at nesting 0..2, taken from an abandoned or a finished loop, read again after six kinds of further loops forked and recycled contexts in the same statement) and linear families: recursion to depth 100000 with a captured frame re-read at every allocation boundary",
		Assumptions: []string{"the state key drops values: sound by data independence (memory.go never branches on a value outside DumpStack)", "at most 3 live memories, 3 call frames and 3 captured frames per state"},
		Exec: func(payload string) (string, string) {
			if st := stmtsOf(payload); len(st) > 0 {
				impl.Init()
				s, d := sessExec(sess.Options{})(payload)
				if s != "" {
					s = "program:" + s
				}
				return s, d
			}
			var p struct{ Path []int }
			if err := json.Unmarshal([]byte(payload), &p); err != nil {
				return "harness:bad-payload", err.Error()
			}
			if len(p.Path) == 1 && p.Path[0] < 0 {
				return c18Linear(-p.Path[0])
			}
			s, d, _, _ := c18Replay(p.Path)
			return s, d
		},
		Shrink: func(payload, sig string) string {
			var p struct{ Path []int }
			json.Unmarshal([]byte(payload), &p)
			path := p.Path
			for changed := true; changed; {
				changed = false
				for i := range path {
					c := append(append([]int{}, path[:i]...), path[i+1:]...)
					if s, _, _, _ := c18Replay(c); s == sig {
						path, changed = c, true
						break
					}
				}
			}
			b, _ := json.Marshal(map[string]any{"path": path})
			return string(b)
		},
		Run: c18Run,
	})
}

// c18Linear: deep recursion with a captured frame and a local re-read while the stack crosses allocation boundaries.
func c18Linear(depth int) (sig, detail string) {
	w := newWorld()
	defer func() {
		if r := recover(); r != nil {
			sig, detail = "memory-panic@"+impl.PanicSite(), fmt.Sprint(r)
		}
	}()
	al := map[string]c18Op{"call": {Kind: "call", A: 2, B: 1, C: -1}, "func": {Kind: "func"}, "set": {Kind: "set", A: -1}}
	w.apply(al["call"])
	w.apply(al["func"])
	m := w.mems[0]
	for d := 0; d < depth; d++ {
		// recursion: frames are not tracked one by one in the model beyond the first; push and call directly
		m.real.Push(tv(1))
		m.real.PushFrame(1, 2)
		m.real.PushClosure(w.caps[0])
		m.real.Push(tv(2))
		if d%97 == 0 || d == depth-1 {
			// the definer's variables as seen through the captured frame, at any depth
			for i, t := range w.capsM[0].slots {
				got := m.real.LookUpClosure(i)
				if x, _ := got.ToInt(); (t == 0 && !got.IsNil()) || (t != 0 && x != t) {
					return "variable-lost-its-value", fmt.Sprintf("at recursion depth %d the captured variable %d reads %v, last written tag %d", d, i, got, t)
				}
			}
		}
	}
	for d := 0; d < depth; d++ {
		m.real.PopFrame()
		m.real.PopClosure()
	}
	if dchk := w.check(); dchk != "" {
		return "variable-lost-its-value", "after unwinding " + fmt.Sprint(depth) + " calls: " + dchk
	}
	return "", ""
}

func c18Run(w *core.W) {
	impl.Init()
	w.NoCur = true
	depth := 5
	if w.Thorough() {
		depth = 6
	}
	al := c18Alphabet()
	w.Family("memory-operation-sequences")
	seen := map[string]bool{}
	frontier := [][]int{{}}
	states, transitions := 0, 0
	completed := 0
	for d := 0; d <= depth && len(frontier) > 0; d++ {
		next := [][]int{}
		for _, path := range frontier {
			sig, detail, key, world := c18Replay(path)
			if sig != "" {
				b, _ := json.Marshal(map[string]any{"path": path})
				w.Mine(string(b))
				w.Fail(string(b), sig, detail)
				continue
			}
			if seen[key] {
				continue
			}
			seen[key] = true
			states++
			if d == depth {
				continue
			}
			for oi, o := range al {
				if world.enabled(o) {
					transitions++
					next = append(next, append(append([]int{}, path...), oi))
				}
			}
			if states%2000 == 0 && w.Expired(fmt.Sprintf("time budget reached at depth %d (depth %d fully explored)", d, completed)) {
				next = nil
				frontier = nil
				break
			}
		}
		if frontier != nil {
			completed = d
		}
		frontier = next
	}
	w.Mine(fmt.Sprintf("bfs depth %d", depth))
	w.Evals(int64(transitions))
	w.NonTrivialN(int64(states))
	w.Count("states", int64(states))
	w.Count("transitions", int64(transitions))
	w.Count("traces_validated_against_impl", int64(transitions))
	w.Max("depth_completed", int64(completed))
	w.Sample(map[string]any{"example_path": "push(300) call(args=1,locals=127,cap=-1) func push(128) set(-1) ret"})

	// program-level twin: every order of three variable-introducing constructs inside one function, every
	// variable written with its own tag and all of them read back at the end (slot allocation of the rewriter)
	w.NoCur = false // the program families run the VM, which can take the process down: record the current item
	w.Family("variable-slots-program")
	decls := []struct{ name, src string }{
		{"assign-new", "@ = \"t@#\"\n  r = r + [@, p, q]"}, {"assign-param", "p = \"tp#\"\n  r = r + [p, q]"},
		{"for-new", "for @ <- elems([\"f@#\", \"g@#\"]) r = r + [@, p, q]"}, {"for-param", "for q <- elems([\"fq#\"]) r = r + [p, q]"},
		{"zip-param-new", "for p, @ <- elems([\"zp#\"]), elems([\"z@#\"]) r = r + [p, @, q]"},
		{"zip-new-param", "for @, q <- elems([\"z@#\"]), elems([\"zq#\"]) r = r + [@, q, p]"},
		{"zip-new-new", "for @, @@ <- elems([\"z@#\", \"y@#\"]), elems([\"zz@#\", \"yy@#\"]) r = r + [@, @@, p, q]"},
		{"inner-function", "@ = (k) -> k + \"i@#\"\n  r = r + [@(\"arg\"), p, q]"},
		{"new-local-after", "@ = \"n@#\"\n  @@ = \"m@#\"\n  r = r + [@@, @]"},
	}
	for a := range decls {
		for b := range decls {
			for c := range decls {
				seq := []int{a, b, c}
				var body strings.Builder
				body.WriteString("  r = []\n")
				for i, d := range seq {
					v := string(rune('a' + i))
					src := strings.ReplaceAll(decls[d].src, "@@", v+"x")
					src = strings.ReplaceAll(src, "@", v)
					src = strings.ReplaceAll(src, "#", fmt.Sprint(i))
					body.WriteString("  " + src + "\n")
				}
				vars := []string{"r", "p", "q"}
				prog := []string{"z = \"gz\"", "f = (p, q) -> {\n" + body.String() + "  [" + strings.Join(vars, ", ") + "]\n}", "f(\"ap\", \"aq\")", "z"}
				key := keyOf(prog)
				if !w.Mine(key) {
					continue
				}
				w.NonTrivial()
				if sig, detail := sessExec(sess.Options{})(payloadOf(prog)); sig != "" {
					w.Fail(payloadOf(prog), "program:"+sig, detail)
				}
			}
		}
	}
	// variables captured inside generator contexts (nesting 0..2) that are abandoned or run to their end, read again
	// after other generator contexts were forked and recycled in the same statement
	w.Family("variables-under-context-recycling")
	{
		pre := []string{
			"mkg = () -> {\n  k = \"ka\"\n  yield () -> k\n  k = \"kb\"\n  yield () -> k\n}",
			"relay = () -> for c <- mkg() yield c",
			"relayb = () -> for c <- relay() yield c",
			"relayr = () -> for c <- mkg() {\n  yield c\n  return 0\n}", // a generator that leaves its own loop by return
			"first = (g) -> for c <- g() return c",
			"last = (g) -> {\n  r = 0\n  for c <- g() r = c\n  r\n}",
			"evens = (m) -> for n <- fromto(0, m) if n % 2 == 0 yield n",
			"lsum = (m) -> {\n  t = 0\n  for i <- fromto(0, m) t = t + i\n  t\n}",
		}
		churns := []string{
			"for i, j, k <- evens(6), evens(8), fromto(0, 3) s = s + i + j + k",
			"for i <- fromto(0, 3) s = s + i",
			"for i, j <- fromto(0, 3), elems(\"abc\") s = s + i",
			"for i, j <- evens(6), evens(8) s = s + i + j",
			"for i <- fromto(0, 2) for j <- evens(4) s = s + i + j",
			"s = s + lsum(5)",
			"for c <- relayb() s = s + 1",
		}
		for _, pick := range []string{"first", "last"} {
			for _, src := range []string{"mkg", "relay", "relayb", "relayr"} {
				for _, ch := range churns {
					for _, twice := range []bool{false, true} {
						body := "  h = " + pick + "(" + src + ")\n  before = h()\n  s = 0\n  " + ch + "\n"
						if twice {
							body += "  hh = " + pick + "(" + src + ")\n  " + ch + "\n  [before, h(), hh(), s]\n"
						} else {
							body += "  [before, h(), s]\n"
						}
						prog := append(append([]string{}, pre...), "f = () -> {\n"+body+"}", "f()", "[f(), f()]", "{\n"+body+"}")
						if !w.Mine(keyOf(prog)) {
							continue
						}
						w.NonTrivial()
						if sig, detail := sessExec(sess.Options{})(payloadOf(prog)); sig != "" {
							w.Fail(payloadOf(prog), "program:"+sig, detail)
						}
					}
				}
			}
		}
	}
	// a variable of an outer function is not visible two levels in (the name is then a global); and a captured
	// variable updated after the stack was reallocated, in a session whose earlier statement failed inside calls
	w.Family("variables-across-levels-and-failures")
	for _, prog := range [][]string{
		{"x = \"gx\"", "f = (x, pad) -> {\n  (y) -> {\n    (z) -> [x, y, z]\n  }\n}", "a = f(\"ax\", \"ap\")", "b = a(\"ay\")", "b(\"az\")"},
		{"x = \"gx\"", "w = \"gw\"", "f = (pad, x) -> {\n  w = \"fw\"\n  (y) -> {\n    v = \"mv\"\n    (z) -> [x, w, v, z]\n  }\n}", "a = f(\"ap\", \"ax\")", "b = a(\"ay\")", "b(\"az\")"},
		{"x = \"gx\"", "f = (x) -> () -> () -> () -> x", "a = f(\"ax\")", "b = a()", "c = b()", "c()"},
	} {
		if w.Mine(keyOf(prog)) {
			w.NonTrivial()
			if sig, detail := sessExec(sess.Options{})(payloadOf(prog)); sig != "" {
				w.Fail(payloadOf(prog), "program:"+sig, detail)
			}
		}
	}
	for _, failDepth := range []int{0, 1, 3, 60} {
		for _, locals := range []string{"", "  la = n\n  lb = la\n", "  la = n\n  lb = la\n  lc = lb\n  ld = lc\n"} {
			for _, depth := range []int{30, 60, 200} {
				prog := []string{
					"boom = (n) -> if n <= 0 {\n  [1][5]\n} else boom(n - 1) + 1",
					"walk = (n) -> {\n" + locals + "  if n <= 0 0 else walk(n - 1) + 1\n}",
					"f = (a, d) -> {\n  x = a\n  g = () -> x\n  t = walk(d)\n  x = x + 1\n  [g(), x]\n}",
				}
				if failDepth > 0 {
					prog = append(prog, fmt.Sprintf("boom(%d)", failDepth))
				} else {
					prog = append(prog, "[1][5]")
				}
				prog = append(prog, fmt.Sprintf("f(20, %d)", depth), fmt.Sprintf("f(20, %d)", depth+100))
				if !w.Mine(keyOf(prog)) {
					continue
				}
				w.NonTrivial()
				if sig, detail := sessExec(sess.Options{})(payloadOf(prog)); sig != "" {
					w.Fail(payloadOf(prog), "program:"+sig, detail)
				}
			}
		}
	}
	// generator contexts forked from frames of different widths one after the other in one statement (the second
	// fork reuses the memory of the first): the iterator expression pushes operands and then reads the first, a
	// middle and the last variable of the copied frame
	w.Family("forks-from-frames-of-different-widths")
	{
		mk := func(name string, k int) string {
			var b strings.Builder
			fmt.Fprintf(&b, "%s = (a) -> {\n", name)
			prev := "a"
			names := []string{"a"}
			for i := 0; i < k; i++ {
				v := letters(i)
				fmt.Fprintf(&b, "  %s = %s + \"%d\"\n", v, prev, i%10)
				prev = v
				names = append(names, v)
			}
			mid := names[len(names)/2]
			fmt.Fprintf(&b, "  r = []\n  for i <- elems([\"lit\", a, %s, %s]) r = r + [#i]\n  for i, j <- elems([a, %s]), fromto(#a, #%s + 2) r = r + [#i, j]\n  r\n}", mid, prev, prev, mid)
			return b.String()
		}
		widths := []int{0, 1, 2, 5, 40, 130}
		for _, k1 := range widths {
			for _, k2 := range widths {
				for _, between := range []string{"", "t = 0\n  for q <- fromto(0, 3) t = t + q\n  "} {
					prog := []string{mk("fone", k1), mk("ftwo", k2),
						"both = () -> {\n  " + between + "x = fone(\"p\")\n  y = ftwo(\"qq\")\n  [x, y, fone(\"rrr\")]\n}", "both()", "[ftwo(\"s\"), fone(\"tt\")]"}
					if !w.Mine(keyOf(prog)) {
						continue
					}
					w.NonTrivial()
					if sig, detail := sessExec(sess.Options{})(payloadOf(prog)); sig != "" {
						w.Fail(payloadOf(prog), "program:"+sig, detail)
					}
				}
			}
		}
	}
	w.Family("deep-recursion")
	for _, dep := range []int{1000, 100000} {
		b, _ := json.Marshal(map[string]any{"path": []int{-dep}})
		if !w.Mine(string(b)) {
			continue
		}
		w.NonTrivial()
		if sig, detail := c18Linear(dep); sig != "" {
			w.Fail(string(b), sig, detail)
		}
	}
}
