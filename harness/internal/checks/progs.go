package checks

import (
	"encoding/base64"
	"encoding/json"
	"strings"
	"unicode/utf8"

	. "vharness/internal/gen"
)

// Shared program alphabets (DESIGN.md §2.3): operand sources, operator
// representatives, embedding contexts. All enumerations are canonical and
// simplest-first.

// Scope of an operand expression.
type scopeKind int

const (
	scTop  scopeKind = iota // top-level statement: constants, globals, calls, …
	scFunc                  // inside the standard function wrapper: also parameters, locals, captured variables
)

// preludeTop defines what top-level operand sources use.
func preludeTop() []T {
	return []T{
		Asg("id", Fn(Ps("x"), N("x"))),
		Asg("gi", I(2)),
		Asg("ga", L(I(1), I(2))),
		// returns its argument after nested arithmetic: whatever the caller kept in the temp register is gone
		Asg("ar", Fn(Ps("x"), Bin("-", Bin("*", Bin("+", N("x"), I(1)), I(1)), I(1)))),
	}
}

// wrapFunc puts body statements into the standard function wrapper, where
// ci/ca are captured, pi/pa parameters and li/la locals; the session ends
// with the call whose value is observed.
func wrapFunc(body ...T) []T {
	inner := Fn(Ps("pi", "pa"), Blk(append([]T{Asg("li", I(2)), Asg("la", L(I(1), I(2)))}, body...)...))
	return []T{
		Asg("mk", Fn(Ps("ci", "ca"), inner)),
		Asg("fn", Call("mk", I(2), L(I(1), I(2)))),
		Call("fn", I(2), L(I(1), I(2))),
	}
}

type operand struct {
	Name string
	E    T
}

// operands lists the operand expressions of a scope. full: every value in
// every source kind; otherwise every value as a constant plus the int 2, the
// array [1, 2] and nil in every source kind.
func operands(sc scopeKind, full bool) []operand {
	r := []operand{
		{"int:const", I(2)},
		{"int0:const", I(0)},
		{"int1:const", I(1)},
		{"float:const", F(1.5)},
		{"bool:const", B(true)},
		{"str:const", S("ab")},
		{"arr:const", L(I(1), I(2))},
		{"fn:global", N("id")},
		{"nil:global", N("u")},
		{"int:global", N("gi")},
		{"int:call", Call("id", I(2))},
		{"int:index", Ix(L(I(5), I(2)), I(1))},
		{"int:temp", Bin("+", I(1), I(1))},
		{"int:temp2", Bin("*", Bin("+", I(1), I(1)), I(1))},
		{"int:neg", Un("-", I(2))},
		{"int:len", Un("#", L(I(1), I(2)))},
		{"int:arrelem", Ix(L(Bin("+", I(1), I(1))), I(0))},
		{"arr:global", N("ga")},
		{"arr:call", Call("id", L(I(1), I(2)))},
		{"arr:index", Ix(L(L(I(1), I(2))), I(0))},
		{"arr:temp", Bin("+", L(I(1)), L(I(2)))},
		{"arr:computed", L(I(1), Bin("+", I(1), I(1)))},
		{"arr:slice", Ix2(L(I(0), I(1), I(2)), I(1), I(3))},
		{"float:nan", Call("aton", S("NaN"))},
		{"err:type", Un("!", I(2))},
		{"err:zero", Bin("/", I(1), I(0))},
		{"err:index", Ix(L(I(1)), I(5))},
		{"int:call-arith", Call("ar", I(2))},
		{"int:index-by-call", Ix(L(I(5), I(7), I(2)), Call("ar", I(2)))},
		{"int:len-slice-hi-call", Un("#", Ix2(S("wxyz"), I(1), Call("ar", I(3))))},
		{"arr:slice-hi-call", Ix2(L(I(0), I(1), I(2), I(3)), I(1), Call("ar", I(3)))},
		{"arr:slice-lo-call", Ix2(L(I(0), I(1), I(2)), Call("ar", I(1)), I(3))},
		{"arr:slice-of-call", Ix2(Call("id", L(I(0), I(1), I(2))), I(1), Call("ar", I(3)))},
		{"arr:elem-call", L(I(1), Call("ar", I(2)))},
		{"nil:call", Call("id", N("u"))},
		{"nil:if", Call("noval")},
	}
	if sc == scFunc {
		r = append(r,
			operand{"int:param", N("pi")}, operand{"int:local", N("li")}, operand{"int:captured", N("ci")},
			operand{"arr:param", N("pa")}, operand{"arr:local", N("la")}, operand{"arr:captured", N("ca")},
			operand{"nil:local-undef", N("lu")},
		)
	}
	if full {
		r = append(r,
			operand{"float:temp", Bin("+", F(1), F(0.5))},
			operand{"float:call", Call("id", F(1.5))},
			operand{"bool:temp", Bin("<", I(1), I(2))},
			operand{"bool:not", Un("!", B(false))},
			operand{"bool:call", Call("id", B(true))},
			operand{"str:temp", Bin("+", S("a"), S("b"))},
			operand{"str:call", Call("id", S("ab"))},
			operand{"str:index", Ix(S("xab"), I(1))},
			operand{"str:slice", Ix2(S("xab"), I(1), I(3))},
			operand{"fn:literal", Fn(Ps("x"), N("x"))},
			operand{"fn:call", Call("id", N("id"))},
			operand{"int:big", I(9223372036854775807)},
			operand{"int:63", I(63)},
			operand{"int:64", I(64)},
		)
	}
	return r
}

// novalDef defines a function whose call evaluates to nil (an if without else whose condition is false).
func novalDef() T { return Asg("noval", Fn(P, If(B(false), I(1)))) }

// Operator representatives: one per code-generation / semantic class.
var repBinOps = []string{"+", "-", "*", "/", "%", "<", "==", "&", "&&", "<<"}
var allBinOps = []string{"+", "-", "*", "/", "%", "<", ">", "<=", ">=", "==", "!=", "&", "|", "&&", "||", "<<", ">>"}
var allUnOps = []string{"-", "#", "!", "~"}

// exprCtx embeds an expression into a larger one (operand depth, call argument, array element, index position …).
type exprCtx struct {
	Name string
	F    func(e T) T
}

func exprContexts() []exprCtx {
	return []exprCtx{
		{"id", func(e T) T { return e }},
		{"left-depth1", func(e T) T { return Bin("+", e, I(0)) }},
		{"right-depth1", func(e T) T { return Bin("+", I(0), e) }},
		{"left-depth2", func(e T) T { return Bin("*", Bin("+", e, I(0)), I(1)) }},
		{"right-depth2", func(e T) T { return Bin("*", I(1), Bin("+", I(0), e)) }},
		{"right-of-temp", func(e T) T { return Bin("+", Bin("*", I(2), I(3)), e) }},
		{"right-of-temp-deep", func(e T) T { return Bin("-", Bin("+", Bin("*", I(2), I(3)), e), I(1)) }},
		{"right-of-temp-array", func(e T) T { return Bin("+", Bin("+", L(I(9)), L(I(8))), e) }},
		{"unary-of-temp-sum", func(e T) T { return Un("#", Bin("+", Bin("+", L(I(9)), L(I(8))), e)) }},
		{"right-of-call", func(e T) T { return Bin("+", Call("id", I(0)), e) }},
		{"left-of-call", func(e T) T { return Bin("+", e, Call("id", I(0))) }},
		{"call-arg", func(e T) T { return Call("id", e) }},
		{"array-elem0", func(e T) T { return Ix(L(e), I(0)) }},
		{"array-elem1", func(e T) T { return L(I(0), e) }},
		{"array-elem-mid", func(e T) T { return L(Bin("+", I(0), I(0)), e, I(9)) }},
		{"index-pos", func(e T) T { return Ix(L(I(7), I(8), I(9)), e) }},
		{"index-target", func(e T) T { return Ix(e, I(0)) }},
		{"slice-lo", func(e T) T { return Ix2(L(I(7), I(8), I(9)), e, I(3)) }},
		{"slice-hi", func(e T) T { return Ix2(L(I(7), I(8), I(9)), I(0), e) }},
		{"eq-self-shape", func(e T) T { return Bin("==", e, e) }},
		{"unary-len-of-arr", func(e T) T { return Un("#", L(e)) }},
		{"toa", func(e T) T { return Call("toa", e) }},
	}
}

// stmtCtx embeds a statement into a session. Func marks contexts whose
// statement lives inside the standard function wrapper.
type stmtCtx struct {
	Name string
	Func bool
	F    func(s T) []T
}

func loopWhile(body ...T) T {
	return Wh(Bin("<", N("k"), I(2)), Blk(append([]T{Asg("k", Bin("+", N("k"), I(1)))}, body...)...))
}

func stmtContexts() []stmtCtx {
	top := func(s ...T) []T { return s }
	return []stmtCtx{
		{"top-used", false, func(s T) []T { return top(s) }},
		{"top-discarded", false, func(s T) []T { return top(Blk(s, I(7))) }},
		{"top-after-stmt", false, func(s T) []T { return top(Blk(Asg("t", I(1)), s)) }},
		{"then-used", false, func(s T) []T { return top(If(B(true), s)) }},
		{"then-else-used", false, func(s T) []T { return top(IfE(B(true), s, I(0))) }},
		{"else-used", false, func(s T) []T { return top(IfE(B(false), I(0), s)) }},
		{"then-discarded", false, func(s T) []T { return top(Blk(If(B(true), s), I(7))) }},
		{"else-discarded", false, func(s T) []T { return top(Blk(IfE(B(false), I(0), s), I(7))) }},
		{"then-computed-cond", false, func(s T) []T { return top(If(Bin("<", I(1), N("gi")), s)) }},
		{"while-last-used", false, func(s T) []T { return top(Asg("k", I(0)), loopWhile(s)) }},
		{"while-last-discarded", false, func(s T) []T { return top(Asg("k", I(0)), Blk(loopWhile(s), I(7))) }},
		{"while-oneline-body", false, func(s T) []T {
			return top(Asg("k", I(0)), Wh(Bin("<", N("k"), I(1)), Blk(Asg("k", Bin("+", N("k"), I(1))), s)))
		}},
		{"for-last-used", false, func(s T) []T { return top(For("i", Call("fromto", I(0), I(2)), s)) }},
		{"for-last-discarded", false, func(s T) []T { return top(Blk(For("i", Call("fromto", I(0), I(2)), s), I(7))) }},
		{"for-block-body", false, func(s T) []T { return top(For("i", Call("fromto", I(0), I(2)), Blk(Asg("t", N("i")), s))) }},
		{"fn-tail", true, func(s T) []T { return wrapFunc(s) }},
		{"fn-nontail", true, func(s T) []T { return wrapFunc(s, I(7)) }},
		{"fn-tail-then", true, func(s T) []T { return wrapFunc(If(B(true), s)) }},
		{"fn-tail-else", true, func(s T) []T { return wrapFunc(IfE(B(false), I(0), s)) }},
		{"fn-tail-then-else", true, func(s T) []T { return wrapFunc(IfE(Bin("<", I(1), N("pi")), s, I(0))) }},
		{"fn-nontail-then", true, func(s T) []T { return wrapFunc(If(B(true), s), I(7)) }},
		{"fn-tail-while", true, func(s T) []T { return wrapFunc(Asg("k", I(0)), loopWhile(s)) }},
		{"fn-nontail-while", true, func(s T) []T { return wrapFunc(Asg("k", I(0)), loopWhile(s), I(7)) }},
		{"fn-tail-for", true, func(s T) []T { return wrapFunc(For("i", Call("fromto", I(0), I(2)), s)) }},
		{"fn-nontail-for", true, func(s T) []T { return wrapFunc(For("i", Call("fromto", I(0), I(2)), s), I(7)) }},
		{"fn-oneline", true, func(s T) []T { return []T{Asg("fo", Fn(Ps("pi", "pa"), s)), Call("fo", I(2), L(I(1), I(2)))} }},
		{"gen-body", true, func(s T) []T {
			return append(wrapFunc(Yld(I(1)), s, Yld(I(2))), Asg("r", L()), For("i", Call("fn", I(2), L(I(1), I(2))), Asg("r", Bin("+", N("r"), L(N("i"))))), N("r"))
		}},
	}
}

// session assembles prelude + statements.
func session(stmts []T) []string {
	all := append(append([]T{}, preludeTop()...), novalDef())
	all = append(all, stmts...)
	return Texts(all...)
}

type sessPayload struct {
	Stmts []string `json:"stmts,omitempty"`
	// B64: the same list when some text is not valid UTF-8 (JSON would replace the offending bytes)
	B64 []string `json:"stmts_base64,omitempty"`
}

func payloadOf(stmts []string) string {
	p := sessPayload{Stmts: stmts}
	for _, s := range stmts {
		if !utf8.ValidString(s) {
			p = sessPayload{}
			for _, t := range stmts {
				p.B64 = append(p.B64, base64.StdEncoding.EncodeToString([]byte(t)))
			}
			break
		}
	}
	b, _ := json.Marshal(p)
	return string(b)
}

func stmtsOf(payload string) []string {
	var p sessPayload
	json.Unmarshal([]byte(payload), &p)
	if len(p.B64) > 0 {
		out := make([]string, len(p.B64))
		for i, t := range p.B64 {
			b, _ := base64.StdEncoding.DecodeString(t)
			out[i] = string(b)
		}
		return out
	}
	return p.Stmts
}

func keyOf(stmts []string) string { return strings.Join(stmts, "\n----\n") }

// stmtForms: the statement-position product (DESIGN §4 C01 F2): every statement form with every body shape.
// level 0: simple statements; level 1: every compound form over level-0 bodies (one-line and braced);
// level 2 (thorough): compound forms over level-1 bodies.
func stmtForms(levels int) []T {
	c := Bin("<", I(1), N("gi"))  // computed, true
	cf := Bin("<", N("gi"), I(1)) // computed, false
	s0 := []T{
		I(5), Bin("+", N("gi"), I(1)), Call("id", I(5)), Asg("x", I(5)), Asg("x", Bin("+", N("gi"), I(1))),
		Ret(I(5)), Ret(Bin("+", N("gi"), I(1))), Yld(I(5)), Call("write", S("w")),
	}
	compound := func(bodies []T) []T {
		out := []T{}
		for _, b := range bodies {
			out = append(out,
				If(c, b), If(cf, b), If(B(true), b), If(Un("!", cf), b),
				Wh(cf, b), Blk(Asg("n", I(0)), Wh(Bin("<", N("n"), I(2)), Blk(Asg("n", Bin("+", N("n"), I(1))), b))),
				For("i", Call("fromto", I(0), I(2)), b), For("i", Call("fromto", I(0), I(0)), b),
			)
		}
		for i, b := range bodies {
			// if-else over pairs: every body against a rotating partner and against a plain value
			e := bodies[(i*7+3)%len(bodies)]
			out = append(out, IfE(c, b, e), IfE(cf, b, e), IfE(c, b, I(6)), IfE(cf, I(6), b))
			// and against itself (both branches return / yield / assign / loop)
			out = append(out, IfE(c, b, b), IfE(cf, b, b))
		}
		return out
	}
	withBlocks := func(ss []T) []T {
		out := append([]T{}, ss...)
		for _, x := range ss {
			out = append(out, Blk(Asg("t", I(1)), x))
		}
		return out
	}
	all := append([]T{}, s0...)
	level := s0
	for l := 1; l <= levels; l++ {
		level = compound(withBlocks(level))
		all = append(all, level...)
	}
	return all
}
