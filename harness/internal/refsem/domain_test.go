package refsem

import (
	"strings"
	"testing"

	"github.com/paulsonkoly/calc/parser"
)

func TestUseBeforeDef(t *testing.T) {
	cases := []struct {
		src string
		amb bool
	}{
		{"f = (n) -> {\n a = a+1\n}", false}, // Readme example: executed once, read before the assignment → global in both
		{"g = () -> while k < 2 k = k + 1", true},
		{"g = (p) -> {\n if p k = 1 else k = k + 1\n}", false}, // the read in the else branch is decided at run time
		{"g = (p) -> {\n if p k = 1\n k\n}", false}, // decided at run time (deferred)
		{"g = (p) -> {\n k = 1\n while k < 3 k = k + 1\n k\n}", false},
		{"f = () -> {\n x = 1\n g = () -> x\n x = 2\n g\n}", false},
		{"f = () -> {\n g = () -> x\n x = 2\n g\n}", true},
		{"f = () -> {\n g = () -> y\n x = 2\n g\n}", false},
		{"f = (a) -> for i <- fromto(0, a) write(i)", false},
		{"f = (a) -> {\n for i <- fromto(0, a) write(i)\n i\n}", false}, // decided at run time (deferred)
		{"x = 1", false},
		{"while k < 2 k = k + 1", false},
		{"f = (n) -> if n <= 0 0 else n + f(n-1)", false},
		{"f = () -> {\n if true {\n t = 1\n }\n (z) -> t\n}", true},
	}
	for _, c := range cases {
		tr, err := parser.Parse(c.src)
		if err != nil {
			t.Fatalf("%q: %v", c.src, err)
		}
		if got := UseBeforeDef(tr...); got != c.amb {
			t.Errorf("%q: ambiguous=%v want %v", c.src, got, c.amb)
		}
		_, def := AnalyzeDefUse(tr...)
		wantDef := strings.Contains(c.src, "if p k = 1") || strings.Contains(c.src, " i\n}")
		if (len(def) > 0) != wantDef {
			t.Errorf("%q: deferred=%v", c.src, def)
		}
	}
}
