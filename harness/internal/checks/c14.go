package checks

import (
	"fmt"
	"strings"

	"github.com/paulsonkoly/calc/lexer"
	"github.com/paulsonkoly/calc/types/token"

	"vharness/internal/core"
	"vharness/internal/impl"
)

// C14: tokenisation is faithful to the text.

const c14Alphabet = "01an+<=([,\"\\. \t\n;-"

type tok struct {
	Kind     string
	Text     string
	From, To int
}

// lexImpl runs the real lexer under fuel. errAt is -1 when the input is accepted.
func lexImpl(in string) (toks []tok, lexErr string, hung bool, panicked string) {
	ticks := 0
	budget := impl.DefaultLexFuel(len(in))
	lexer.VerifTick = func() {
		ticks++
		if ticks > budget {
			panic(impl.FuelPanic{What: "lexer"})
		}
	}
	defer func() {
		lexer.VerifTick = nil
		if r := recover(); r != nil {
			if _, ok := r.(impl.FuelPanic); ok {
				hung = true
			} else {
				panicked = fmt.Sprint(r) + " @" + impl.PanicSite()
			}
		}
	}()
	l := lexer.NewLexer(in)
	for n := 0; l.Next(); n++ {
		if l.Err != nil {
			return toks, l.Err.Error(), false, ""
		}
		t := l.Token
		toks = append(toks, tok{Kind: kindName(t.Type), Text: t.Value, From: t.From(), To: t.To()})
		if n > 4*len(in)+8 {
			hung = true
			return
		}
	}
	if l.Err != nil {
		lexErr = l.Err.Error()
	}
	return
}

func kindName(k token.Kind) string {
	switch k {
	case token.EOL:
		return "EOL"
	case token.EOF:
		return "EOF"
	case token.IntLit:
		return "Int"
	case token.FloatLit:
		return "Float"
	case token.StringLit:
		return "String"
	case token.Name:
		return "Name"
	case token.Sticky:
		return "Sticky"
	case token.NotSticky:
		return "NotSticky"
	}
	return "Invalid"
}

const specSticky = "+*/=<>!%-&|#~"
const specNotSticky = "(){}[],:"

func isDigit(c byte) bool { return c >= '0' && c <= '9' }
func isLower(c byte) bool { return c >= 'a' && c <= 'z' }

// lexSpec is the independent tokenizer written from the Readme's token
// regexes (longest match, sticky grouping, ';' comments, blanks separate).
// errAt >= 0: the text is not in the language from that byte on.
// open: the description does not settle the input (a digit run ending in '.').
func lexSpec(in string) (toks []tok, errAt int, open bool) {
	i := 0
	errAt = -1
	for i < len(in) {
		c := in[i]
		switch {
		case c == ' ' || c == '\t':
			i++
		case c == ';':
			for i < len(in) && in[i] != '\n' {
				i++
			}
		case c == '\n':
			toks = append(toks, tok{"EOL", "\n", i, i + 1})
			i++
		case isDigit(c):
			j := i
			for j < len(in) && isDigit(in[j]) {
				j++
			}
			kind := "Int"
			if j < len(in) && in[j] == '.' {
				k := j + 1
				for k < len(in) && isDigit(in[k]) {
					k++
				}
				if k == j+1 {
					open = true // "1." : /\d+(\.\d+)?/ does not say
				}
				kind = "Float"
				j = k
			}
			toks = append(toks, tok{kind, in[i:j], i, j})
			i = j
		case isLower(c):
			j := i
			for j < len(in) && isLower(in[j]) {
				j++
			}
			toks = append(toks, tok{"Name", in[i:j], i, j})
			i = j
		case c == '"':
			j := i + 1
			closed := false
			for j < len(in) {
				if in[j] == '\\' {
					j += 2
					continue
				}
				if in[j] == '"' {
					closed = true
					j++
					break
				}
				j++
			}
			if !closed || j > len(in) {
				return toks, i, false // unterminated string literal
			}
			toks = append(toks, tok{"String", strings.ReplaceAll(in[i:j], "\\n", "\n"), i, j})
			i = j
		case strings.IndexByte(specNotSticky, c) >= 0:
			toks = append(toks, tok{"NotSticky", in[i : i+1], i, i + 1})
			i++
		case strings.IndexByte(specSticky, c) >= 0:
			j := i
			for j < len(in) && strings.IndexByte(specSticky, in[j]) >= 0 {
				j++
			}
			toks = append(toks, tok{"Sticky", in[i:j], i, j})
			i = j
		default:
			return toks, i, false
		}
	}
	if len(toks) == 0 || toks[len(toks)-1].Kind != "EOL" {
		toks = append(toks, tok{"EOL", "\n", 0, 0})
	}
	toks = append(toks, tok{"EOF", "\x00", 0, 0})
	return toks, -1, open
}

// c14Judge checks one input; sig "" = fine.
func c14Judge(in string) (sig, detail string, accepted bool, ntoks int) {
	got, lerr, hung, pan := lexImpl(in)
	if pan != "" {
		return "lexer-panic", fmt.Sprintf("%q: %s", in, pan), false, 0
	}
	if hung {
		return "", "", false, 0 // termination is C06's subject; skipped and counted here
	}
	want, errAt, open := lexSpec(in)
	if open {
		return "", "", false, 0
	}
	show := func(ts []tok) string {
		p := []string{}
		for _, t := range ts {
			p = append(p, fmt.Sprintf("%s(%q)", t.Kind, t.Text))
		}
		return strings.Join(p, " ")
	}
	if errAt >= 0 {
		// not in the language: the lexer must not accept it; tokens before the error must be the documented ones
		if lerr == "" {
			return "accepts-invalid-text", fmt.Sprintf("%q is not in the token language from byte %d on, but the lexer accepted it as %s", in, errAt, show(got)), false, 0
		}
		for i, t := range got {
			if i >= len(want) || t.Kind != want[i].Kind || t.Text != want[i].Text {
				return "tokens-before-error", fmt.Sprintf("%q: token %d before the error is %s(%q), documented %s", in, i, t.Kind, t.Text, show(want)), false, 0
			}
		}
		return "", "", false, 0
	}
	if lerr != "" {
		return "rejects-valid-text", fmt.Sprintf("%q: lexer error %q, documented tokens %s", in, lerr, show(want)), false, 0
	}
	if len(got) != len(want) {
		return "token-sequence", fmt.Sprintf("%q: lexer gives %s, documented %s", in, show(got), show(want)), true, len(got)
	}
	for i := range got {
		if got[i].Kind != want[i].Kind || got[i].Text != want[i].Text {
			return "token-sequence", fmt.Sprintf("%q: lexer gives %s, documented %s", in, show(got), show(want)), true, len(got)
		}
	}
	// direct invariants on the implementation's own spans
	pos := 0
	eofs := 0
	for i, t := range got {
		if t.Kind == "EOF" {
			eofs++
			if i != len(got)-1 {
				return "eof-not-last", fmt.Sprintf("%q: %s", in, show(got)), true, len(got)
			}
			continue
		}
		if t.Kind == "EOL" && t.From == 0 && t.To == 0 && i == len(got)-2 && !(i > 0 && pos == 0 && false) && !(len(in) > 0 && in[0] == '\n' && i == 0) {
			if !onlyBlanksAndComments(in[pos:]) {
				return "gap-content", fmt.Sprintf("%q: text %q after the last token is neither blank nor comment", in, in[pos:]), true, len(got)
			}
			continue // synthetic end marker
		}
		if t.From < pos || t.To < t.From || t.To > len(in) {
			return "span-order", fmt.Sprintf("%q: token %d %s(%q) has span [%d,%d) after position %d", in, i, t.Kind, t.Text, t.From, t.To, pos), true, len(got)
		}
		src := in[t.From:t.To]
		if t.Kind == "String" {
			src = strings.ReplaceAll(src, "\\n", "\n")
		}
		if src != t.Text {
			return "span-text", fmt.Sprintf("%q: token %d %s has text %q but its span [%d,%d) covers %q", in, i, t.Kind, t.Text, t.From, t.To, in[t.From:t.To]), true, len(got)
		}
		if !onlyBlanksAndComments(in[pos:t.From]) {
			return "gap-content", fmt.Sprintf("%q: the gap %q before token %d is not blanks/comments", in, in[pos:t.From], i), true, len(got)
		}
		pos = t.To
	}
	if eofs != 1 {
		return "eof-count", fmt.Sprintf("%q: %d EOF tokens", in, eofs), true, len(got)
	}
	if len(got) < 2 || got[len(got)-2].Kind != "EOL" {
		return "no-final-eol", fmt.Sprintf("%q: %s", in, show(got)), true, len(got)
	}
	// gap variations: one more blank or a tab at every token boundary, a comment at the end of every line
	for _, v := range gapVariants(in, got) {
		g2, e2, h2, p2 := lexImpl(v)
		if p2 != "" || h2 || e2 != "" || len(g2) != len(got) {
			return "layout-sensitive", fmt.Sprintf("%q lexes as %s but its layout variant %q gives %s err=%q hung=%v %s", in, show(got), v, show(g2), e2, h2, p2), true, len(got)
		}
		for i := range g2 {
			if g2[i].Kind != got[i].Kind || g2[i].Text != got[i].Text {
				return "layout-sensitive", fmt.Sprintf("%q lexes as %s but its layout variant %q gives %s", in, show(got), v, show(g2)), true, len(got)
			}
		}
	}
	return "", "", true, len(got)
}

func onlyBlanksAndComments(s string) bool {
	i := 0
	for i < len(s) {
		switch s[i] {
		case ' ', '\t':
			i++
		case ';':
			for i < len(s) && s[i] != '\n' {
				i++
			}
		default:
			return false
		}
	}
	return true
}

func gapVariants(in string, toks []tok) []string {
	cuts := map[int]bool{0: true, len(in): true}
	for _, t := range toks {
		if t.Kind == "EOF" || (t.From == 0 && t.To == 0) {
			continue
		}
		cuts[t.From] = true
		cuts[t.To] = true
	}
	out := []string{}
	for c := 0; c <= len(in); c++ {
		if !cuts[c] {
			continue
		}
		out = append(out, in[:c]+" "+in[c:], in[:c]+"\t"+in[c:])
		// a comment may be added where a line ends
		if c == len(in) {
			out = append(out, in+" ;c", in+";")
		}
		if c < len(in) && in[c] == '\n' {
			out = append(out, in[:c]+" ; c"+in[c:])
		}
	}
	return out
}

func init() {
	core.Register(&core.Check{
		ID:    "C14",
		Level: "exploration",
		Rule: "(plus every string of at most 4 (quick) / 5 (thorough) characters over all 13 operator characters, all 8 punctuation characters, a letter, a digit and a blank) all strings over the 19-character alphabet {0 1 a n + - < = ( [ , \" \\ . blank tab newline ;} (n so that the \\n escape occurs, - so that operator runs of different characters occur) up to length 6 (quick) / 7 (thorough), each lexed by the real Lexer under iteration fuel and by an independent tokenizer written from the Readme's token regexes; accepted strings are additionally checked for the span/gap/end-marker invariants and re-lexed under every single-gap layout variation (blank, tab, trailing comment); " +
			"distinct = distinct string; non-trivial = strings the lexer accepts with at least one real token",
		Assumptions: []string{
			"inputs on which the lexer exhausts its fuel (termination is C06's subject) and inputs the regexes do not settle (a digit run ending in '.') are skipped and counted",
			"string token text is compared modulo the \\n escape translation pinned by the repository's own lexer test",
		},
		Exec: func(payload string) (string, string) {
			s, d, _, _ := c14Judge(stmtsOf(payload)[0])
			return s, d
		},
		Run: c14Run,
	})
}

func c14Run(w *core.W) {
	w.NoCur = true
	maxLen := 6
	if w.Thorough() {
		maxLen = 7
	}
	w.Family("strings")
	alpha := c14Alphabet
	buf := make([]byte, 0, maxLen)
	var rec func(depth int) bool
	n := 0
	rec = func(depth int) bool {
		s := string(buf)
		if w.Mine(s) {
			sig, detail, accepted, nt := c14Judge(s)
			if sig != "" {
				w.Fail(payloadOf([]string{s}), sig, detail)
			}
			if accepted {
				w.Count("accepted", 1)
				if nt > 2 {
					w.NonTrivial()
				}
			} else if sig == "" {
				w.Count("rejected_or_skipped", 1)
			}
			n++
			if n%4096 == 0 && w.Expired("time budget reached while enumerating strings") {
				return false
			}
		}
		if depth == maxLen {
			return true
		}
		for i := 0; i < len(alpha); i++ {
			buf = append(buf, alpha[i])
			ok := rec(depth + 1)
			buf = buf[:len(buf)-1]
			if !ok {
				return false
			}
		}
		return true
	}
	if !rec(0) {
		return
	}
	// every operator and punctuation character of the token language (the main alphabet has only four of them)
	w.Family("operator-characters")
	alpha = specSticky + specNotSticky + "a1 "
	maxLen = 4
	if w.Thorough() {
		maxLen = 5
	}
	buf = buf[:0]
	rec(0)
}
