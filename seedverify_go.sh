#!/bin/sh
# usage: seedverify_go.sh <out-dir> <n> <target-dir-in-module> [extra go test flags]
# Runs a Go-test demonstration of a seeded change in a scratch worktree, without and with the change.
out=$1; n=$2; target=$3; shift 3
export GOFLAGS=-mod=mod GOPROXY=off GOSUMDB=off GOTOOLCHAIN=local
wt=/tmp/seedv/$(basename $out)-go$n
rm -rf $wt; mkdir -p /tmp/seedv
git -C /repo worktree add -q --detach $wt HEAD || exit 2
trap 'git -C /repo worktree remove --force $wt 2>/dev/null; rm -rf $wt' EXIT INT TERM
mkdir -p $wt/$target && cp $out/demo${n}_test.go $wt/$target/zz_demo${n}_test.go
echo "--- WITHOUT the change:"; (cd $wt && go test -count=1 "$@" ./$target 2>&1 | grep -E "^(ok|FAIL|---|panic)" | head -8)
git -C $wt apply $out/patch$n.diff || { echo "PATCH DOES NOT APPLY"; exit 3; }
echo "files: $(git -C $wt diff --stat | tail -1)"
(cd $wt && rm -f $target/zz_demo${n}_test.go && go build ./... && go vet ./... ) >/dev/null 2>&1 && echo "build+vet: ok" || echo "build+vet: FAIL"
(cd $wt && go build -tags verif ./... ) >/dev/null 2>&1 && echo "build -tags verif: ok" || echo "build -tags verif: FAIL"
cp $out/demo${n}_test.go $wt/$target/zz_demo${n}_test.go
t=$(cd $wt && rm $target/zz_demo${n}_test.go && go test -count=1 ./... 2>&1 | grep -c "^FAIL\|^---"); echo "repo tests failing lines with the change: $t"
cp $out/demo${n}_test.go $wt/$target/zz_demo${n}_test.go
echo "--- WITH the change:"; (cd $wt && go test -count=1 "$@" ./$target 2>&1 | grep -E "^(ok|FAIL|---|panic)" | head -8)
