// Package core is the shared runner of the verification harness: sharded
// exhaustive enumeration over worker processes, failure bucketing against the
// committed known-findings file, replay artefacts and evidence files.
package core

import (
	"encoding/json"
	"fmt"
	"hash/fnv"
	"os"
	"os/exec"
	"os/signal"
	"path/filepath"
	"runtime/pprof"
	"sort"
	"strconv"
	"strings"
	"sync"
	"syscall"
	"time"
)

// VerifDir is the root of the verification tree (run.sh exports its own directory).
var VerifDir = verifDir()

// RepoDir is the tree of paulsonkoly/calc the checks run against: /repo, unless VERIF_REPO names a scratch
// copy (used only by the seeded-change experiments, never by a registered command).
func RepoDir() string {
	if d := os.Getenv("VERIF_REPO"); d != "" {
		return d
	}
	return "/repo"
}

func verifDir() string {
	if d := os.Getenv("VERIF_DIR"); d != "" {
		return d
	}
	return "/verif"
}

// Check is one property check.
type Check struct {
	ID    string
	Level string // exploration | model_checking
	Rule  string // how cases are enumerated and what makes one distinct / non-trivial
	// Workers is the number of worker processes (0: one per core).
	Workers int
	// Run enumerates the check's whole bounded space; it must call w.Mine for
	// every item and execute only the items Mine accepts.
	Run func(w *W)
	// Exec re-executes one item from its payload; sig=="" means the property held.
	Exec func(payload string) (sig, detail string)
	// Shrink, when set, minimises and canonicalises a failing payload keeping sig.
	Shrink func(payload, sig string) string
	// Assumptions recorded in the evidence.
	Assumptions []string
	// NeedsCalcBinary makes the runner build /repo/cmd/calc into the scratch dir.
	NeedsCalcBinary bool
}

var registry = map[string]*Check{}

// Register adds a check.
func Register(c *Check) { registry[c.ID] = c }

// Lookup finds a check.
func Lookup(id string) *Check { return registry[id] }

// IDs lists registered checks.
func IDs() []string {
	r := []string{}
	for k := range registry {
		r = append(r, k)
	}
	sort.Strings(r)
	return r
}

// Failure is one property violation observed by a worker.
type Failure struct {
	Family  string `json:"family"`
	Item    string `json:"item"`    // payload that failed
	Witness string `json:"witness"` // shrunk canonical payload (== Item when no shrinker)
	Sig     string `json:"sig"`     // failure signature
	Detail  string `json:"detail"`  // expected vs observed
}

// Report is what a worker hands to the parent.
type Report struct {
	Shard       int                       `json:"shard"`
	Evaluations int64                     `json:"evaluations"`
	NonTrivial  int64                     `json:"nontrivial"`
	Counters    map[string]int64          `json:"counters"`
	MaxCounters map[string]int64          `json:"max_counters"`
	Sets        map[string]map[string]int `json:"sets"`
	Samples     []any                     `json:"samples"`
	Failures    []Failure                 `json:"failures"`
	FailTotal   int64                     `json:"fail_total"`
	Exhaustive  bool                      `json:"exhaustive"`
	CapNote     string                    `json:"cap_note"`
	HarnessErr  string                    `json:"harness_err"`
	Done        bool                      `json:"done"`
}

// W is the worker-side handle.
type W struct {
	Shard, N   int
	Tier       string
	Seed       int64
	Scratch    string
	CalcBinary string
	check      *Check
	rep        Report
	seen       map[uint64]struct{}
	ntSeen     map[uint64]struct{}
	failSeen   map[string]bool
	curFile    *os.File
	deadline   time.Time
	family     string
	sampleCap  int
	lastKey    string
	famStart   time.Time
	// NoCur disables the per-item progress record (for very cheap items that cannot kill the process).
	NoCur bool
}

// Thorough reports whether the thorough tier was requested.
func (w *W) Thorough() bool { return w.Tier == "thorough" }

func hash64(s string) uint64 {
	h := fnv.New64a()
	h.Write([]byte(s))
	return h.Sum64()
}

// Family names the family the following items belong to.
func (w *W) Family(name string) {
	now := time.Now()
	if w.family != "" && !w.famStart.IsZero() {
		w.rep.MaxCounters["family_ms:"+w.family] += now.Sub(w.famStart).Milliseconds()
	}
	w.famStart = now
	w.family = name
}

// Mine decides whether this worker owns the item with the given distinct key
// (sharding by key hash, so duplicates meet in one worker and are dropped).
func (w *W) Mine(key string) bool {
	h := hash64(w.family + "\x00" + key)
	if int(h%uint64(w.N)) != w.Shard {
		return false
	}
	if _, dup := w.seen[h]; dup {
		w.rep.Counters["duplicates_dropped"]++
		return false
	}
	w.seen[h] = struct{}{}
	w.rep.Evaluations++
	w.lastKey = key
	if w.curFile != nil && !w.NoCur {
		b := []byte(w.family + "\x00" + key + "\x00")
		if len(b) > 4000 {
			b = b[:4000]
		}
		w.curFile.WriteAt(append(b, make([]byte, 8)...), 0)
	}
	if len(w.rep.Samples) < w.sampleCap && isPow(w.rep.Evaluations, 7) {
		w.rep.Samples = append(w.rep.Samples, map[string]string{"family": w.family, "item": clip(key, 300)})
	}
	return true
}

// Owns reports whether this worker would own the key (no side effects).
func (w *W) Owns(key string) bool {
	return int(hash64(w.family+"\x00"+key)%uint64(w.N)) == w.Shard
}

// Expired reports whether the internal deadline has passed; the caller stops
// enumerating and the run is reported as not exhaustive.
func (w *W) Expired(note string) bool {
	if time.Now().After(w.deadline) {
		if w.rep.Exhaustive {
			w.rep.Exhaustive = false
			w.rep.CapNote = note
		}
		return true
	}
	return false
}

// NotExhaustive records a cap that was hit.
func (w *W) NotExhaustive(note string) {
	w.rep.Exhaustive = false
	if w.rep.CapNote == "" {
		w.rep.CapNote = note
	}
}

// NonTrivial counts the current item as distinct and non-trivial by the check's rule.
func (w *W) NonTrivial() {
	h := hash64(w.family + "\x00" + w.lastKey)
	if _, dup := w.ntSeen[h]; dup {
		return
	}
	w.ntSeen[h] = struct{}{}
	w.rep.NonTrivial++
}

// Evals adds n sub-cases executed under the current item (e.g. a term run on every stream) to the evaluation count.
func (w *W) Evals(n int64) { w.rep.Evaluations += n }

// NonTrivialN adds n distinct non-trivial sub-cases of the current item.
func (w *W) NonTrivialN(n int64) { w.rep.NonTrivial += n }

// Count adds to a named counter.
func (w *W) Count(name string, d int64) { w.rep.Counters[name] += d }

// Max keeps the maximum of a named gauge.
func (w *W) Max(name string, v int64) {
	if v > w.rep.MaxCounters[name] {
		w.rep.MaxCounters[name] = v
	}
}

// Set adds a member to a named set (merged by union over workers).
func (w *W) Set(name, member string) {
	s := w.rep.Sets[name]
	if s == nil {
		s = map[string]int{}
		w.rep.Sets[name] = s
	}
	s[member]++
}

// Sample records an explicit sample.
func (w *W) Sample(s any) {
	if len(w.rep.Samples) < 2*w.sampleCap {
		w.rep.Samples = append(w.rep.Samples, s)
	}
}

// HarnessError records an internal error of the machinery (exit 2, never a verdict).
func (w *W) HarnessError(format string, a ...any) {
	if w.rep.HarnessErr == "" {
		w.rep.HarnessErr = fmt.Sprintf(format, a...)
	}
}

const maxFailuresPerWorker = 400

// Fail records a violation for the payload; it is re-executed to confirm it
// reproduces, shrunk, and bucketed by (signature, witness).
func (w *W) Fail(payload, sig, detail string) {
	w.rep.FailTotal++
	w.rep.Counters["fail:"+sigClass(sig)]++
	if len(w.rep.Failures) >= maxFailuresPerWorker {
		w.rep.Counters["failures_not_bucketed"]++
		w.NotExhaustive("more than " + strconv.Itoa(maxFailuresPerWorker) + " failing items in one worker; the rest were counted but not bucketed")
		return
	}
	c := w.check
	if c.Exec != nil {
		for i := 0; i < 2; i++ {
			s2, _ := c.Exec(payload)
			if s2 != sig {
				w.HarnessError("non-reproducible observation on %s: first %q then %q", clip(payload, 400), sig, s2)
				return
			}
		}
	}
	wit := payload
	if c.Shrink != nil && c.Exec != nil && os.Getenv("VERIF_NOSHRINK") == "" && !time.Now().After(w.deadline.Add(2*time.Minute)) {
		wit = c.Shrink(payload, sig)
		if s2, _ := c.Exec(wit); s2 != sig {
			w.HarnessError("shrinker changed the signature on %s: %q became %q", clip(payload, 400), sig, s2)
			return
		}
	}
	k := sig + "\x00" + wit
	if w.failSeen[k] {
		w.rep.Counters["failures_same_bucket"]++
		return
	}
	w.failSeen[k] = true
	w.rep.Failures = append(w.rep.Failures, Failure{Family: w.family, Item: payload, Witness: wit, Sig: sig, Detail: detail})
}

func isPow(n, b int64) bool {
	for n > 1 && n%b == 0 {
		n /= b
	}
	return n == 1
}

func sigClass(sig string) string {
	if i := strings.IndexAny(sig, ":@"); i > 0 {
		return sig[:i]
	}
	return sig
}

func clip(s string, n int) string {
	if len(s) > n {
		return s[:n] + "…"
	}
	return s
}

// ---------------------------------------------------------------- worker entry

// WorkerMain runs one shard and writes its report.
func WorkerMain(id, tier string, shard, n int, seed int64, scratch, calcBin string, deadlineUnix int64) int {
	c := Lookup(id)
	if c == nil {
		fmt.Fprintln(os.Stderr, "unknown check", id)
		return 2
	}
	w := &W{Shard: shard, N: n, Tier: tier, Seed: seed, Scratch: scratch, CalcBinary: calcBin, check: c,
		seen: map[uint64]struct{}{}, ntSeen: map[uint64]struct{}{}, failSeen: map[string]bool{}, sampleCap: 6,
		deadline: time.Unix(deadlineUnix, 0)}
	w.rep = Report{Shard: shard, Counters: map[string]int64{}, MaxCounters: map[string]int64{}, Sets: map[string]map[string]int{}, Exhaustive: true}
	cf, err := os.Create(filepath.Join(scratch, fmt.Sprintf("cur.%d", shard)))
	if err == nil {
		w.curFile = cf
	}
	if dir := os.Getenv("VERIF_CPUPROFILE"); dir != "" && shard == 0 {
		// development aid: CPU profile of worker 0
		if f, err := os.Create(filepath.Join(dir, id+".cpu.prof")); err == nil {
			pprof.StartCPUProfile(f)
			defer pprof.StopCPUProfile()
		}
	}
	func() {
		defer func() {
			if r := recover(); r != nil {
				w.HarnessError("worker panic outside an item: %v", r)
			}
		}()
		c.Run(w)
	}()
	w.Family("")
	w.rep.Done = true
	b, _ := json.Marshal(w.rep)
	if err := os.WriteFile(filepath.Join(scratch, fmt.Sprintf("report.%d.json", shard)), b, 0o644); err != nil {
		fmt.Fprintln(os.Stderr, "cannot write report:", err)
		return 2
	}
	return 0
}

// ---------------------------------------------------------------- parent

// KnownFinding is an entry of known_findings.json.
type KnownFinding struct {
	Property    string `json:"property"`
	Status      string `json:"status"` // known | fixed
	Commit      string `json:"commit,omitempty"`
	Match       string `json:"match"` // "witness": sig+witness must be equal; "sig": signature alone (a call site)
	Sig         string `json:"sig"`
	Witness     string `json:"witness,omitempty"`
	Description string `json:"description"`
}

func loadKnown() ([]KnownFinding, error) {
	b, err := os.ReadFile(filepath.Join(VerifDir, "known_findings.json"))
	if err != nil {
		if os.IsNotExist(err) {
			return nil, nil
		}
		return nil, err
	}
	var k struct {
		Findings []KnownFinding `json:"findings"`
	}
	if err := json.Unmarshal(b, &k); err != nil {
		return nil, err
	}
	return k.Findings, nil
}

func matchKnown(kf []KnownFinding, id string, f Failure) *KnownFinding {
	for i := range kf {
		k := &kf[i]
		if k.Property != id || k.Status != "known" {
			continue
		}
		if k.Sig != f.Sig {
			continue
		}
		if k.Match == "sig" || k.Witness == f.Witness {
			return k
		}
	}
	return nil
}

// Evidence mirrors EVIDENCE.schema.json.
type Evidence struct {
	PropertyID  string         `json:"property_id"`
	Tier        string         `json:"tier"`
	Seed        int64          `json:"seed"`
	Level       string         `json:"level"`
	Coverage    map[string]any `json:"coverage"`
	Assumptions []string       `json:"assumptions"`
	WallS       float64        `json:"wall_s"`
	Violations  int            `json:"violations"`
}

// CheckMain is the parent side of `vcheck check ID --tier T`.
func CheckMain(id, tier string, self string) int {
	start := time.Now()
	c := Lookup(id)
	if c == nil {
		fmt.Fprintln(os.Stderr, "unknown check", id)
		return 2
	}
	seed, _ := strconv.ParseInt(os.Getenv("VERIF_SEED"), 10, 64)
	scratch, err := os.MkdirTemp("", "vcheck-"+id+"-")
	if err != nil {
		fmt.Fprintln(os.Stderr, err)
		return 2
	}
	defer os.RemoveAll(scratch)

	calcBin := ""
	if c.NeedsCalcBinary {
		calcBin = filepath.Join(scratch, "calc")
		cmd := exec.Command("go", "build", "-o", calcBin, "./cmd/calc")
		cmd.Dir = RepoDir()
		cmd.Env = append(os.Environ(), "GOFLAGS=-mod=mod", "GOPROXY=off", "GOSUMDB=off", "GOTOOLCHAIN=local")
		if out, err := cmd.CombinedOutput(); err != nil {
			fmt.Fprintf(os.Stderr, "building cmd/calc failed: %v\n%s\n", err, out)
			return 2
		}
	}

	n := c.Workers
	if n <= 0 {
		n = 16
	}
	if v, err := strconv.Atoi(os.Getenv("VERIF_WORKERS")); err == nil && v > 0 {
		n = v // experiments only (mutation runs in the background); registered commands never set it
	}
	// thorough tier: the workers are built with -cover (run.sh) and leave their counters here
	coverDir := ""
	if os.Getenv("VERIF_COVER") != "" {
		coverDir = filepath.Join(scratch, "cov")
		os.MkdirAll(coverDir, 0o755)
	}
	budget := 100 * time.Second
	if tier == "thorough" {
		budget = 14 * time.Minute
	}
	if s := os.Getenv("VERIF_BUDGET_S"); s != "" {
		if v, err := strconv.Atoi(s); err == nil {
			budget = time.Duration(v) * time.Second
		}
	}
	deadline := time.Now().Add(budget).Unix()

	type proc struct {
		cmd    *exec.Cmd
		stderr *strings.Builder
	}
	procs := make([]proc, n)
	// the seed only permutes the order in which shards are started
	order := make([]int, n)
	for i := range order {
		order[i] = int((int64(i) + seed%int64(n) + int64(n)) % int64(n))
	}
	for _, i := range order {
		cmd := exec.Command(self, "worker", id, tier, strconv.Itoa(i), strconv.Itoa(n), strconv.FormatInt(seed, 10), scratch, calcBin, strconv.FormatInt(deadline, 10))
		sb := &strings.Builder{}
		cmd.Stderr = sb
		cmd.Stdout = os.Stderr
		cmd.SysProcAttr = &syscall.SysProcAttr{Setpgid: true} // its own process group: killing a stuck worker also kills the calc binaries it started
		cmd.Env = append(os.Environ(), "GOMAXPROCS=2")
		if n == 1 {
			cmd.Env = os.Environ()
		}
		if os.Getenv("GOGC") == "" {
			// the workers allocate short-lived trees and sessions: collecting less often saves a third of the wall
			// time; the soft limit keeps the checks with large sessions (C08, C15, C18) bounded
			cmd.Env = append(cmd.Env, "GOGC=400", "GOMEMLIMIT=3GiB")
		}
		if coverDir != "" {
			cmd.Env = append(cmd.Env, "GOCOVERDIR="+coverDir)
		}
		if err := cmd.Start(); err != nil {
			fmt.Fprintln(os.Stderr, "cannot start worker:", err)
			return 2
		}
		procs[i] = proc{cmd, sb}
	}
	// an interrupted run takes its workers (each in its own process group) with it
	sigCh := make(chan os.Signal, 1)
	signal.Notify(sigCh, syscall.SIGINT, syscall.SIGTERM, syscall.SIGHUP)
	go func() {
		<-sigCh
		for _, p := range procs {
			if p.cmd != nil && p.cmd.Process != nil {
				syscall.Kill(-p.cmd.Process.Pid, syscall.SIGKILL)
			}
		}
		os.RemoveAll(scratch)
		os.Exit(2)
	}()
	merged := Report{Counters: map[string]int64{}, MaxCounters: map[string]int64{}, Sets: map[string]map[string]int{}, Exhaustive: true}
	harnessErrs := []string{}
	// Supervision: a worker that is still running well after the internal deadline is stuck inside one item (the
	// workers test the deadline between items). It is killed, and the item it was executing is re-executed alone
	// in a fresh process (isolatedVerdict) — the same happens for a worker that died.
	grace := 3 * time.Minute
	if tier == "thorough" {
		grace = 6 * time.Minute
	}
	werrs := make([]error, n)
	stalled := make([]bool, n)
	doneCh := make(chan int, n)
	for i := range procs {
		go func(i int) { werrs[i] = procs[i].cmd.Wait(); doneCh <- i }(i)
	}
	finished := make([]bool, n)
	timer := time.NewTimer(time.Until(time.Unix(deadline, 0).Add(grace)))
	for left := n; left > 0; {
		select {
		case i := <-doneCh:
			finished[i] = true
			left--
		case <-timer.C:
			for i := range procs {
				if !finished[i] {
					stalled[i] = true
					syscall.Kill(-procs[i].cmd.Process.Pid, syscall.SIGKILL)
				}
			}
		}
	}
	timer.Stop()
	// the items of lost workers are re-executed alone, all at once
	lostItem := func(i int) (fam, item string) {
		cur, _ := os.ReadFile(filepath.Join(scratch, fmt.Sprintf("cur.%d", i)))
		parts := strings.SplitN(string(cur), "\x00", 3)
		if len(parts) >= 2 {
			fam, item = parts[0], parts[1]
		}
		return
	}
	verdicts := make([]*Failure, n)
	var vwg sync.WaitGroup
	for i := range procs {
		var r Report
		b, rerr := os.ReadFile(filepath.Join(scratch, fmt.Sprintf("report.%d.json", i)))
		if rerr == nil {
			rerr = json.Unmarshal(b, &r)
		}
		if werrs[i] != nil || rerr != nil || !r.Done {
			vwg.Add(1)
			go func(i int) {
				defer vwg.Done()
				fam, item := lostItem(i)
				verdicts[i] = isolatedVerdict(self, id, fam, item, stalled[i])
			}(i)
		}
	}
	vwg.Wait()
	for i, p := range procs {
		werr := werrs[i]
		var r Report
		b, rerr := os.ReadFile(filepath.Join(scratch, fmt.Sprintf("report.%d.json", i)))
		if rerr == nil {
			rerr = json.Unmarshal(b, &r)
		}
		if werr != nil || rerr != nil || !r.Done {
			cur, _ := os.ReadFile(filepath.Join(scratch, fmt.Sprintf("cur.%d", i)))
			parts := strings.SplitN(string(cur), "\x00", 3)
			item := ""
			fam := ""
			if len(parts) >= 2 {
				fam, item = parts[0], parts[1]
			}
			tail := p.stderr.String()
			first := firstFatalLine(tail)
			how := "died"
			if stalled[i] {
				how = fmt.Sprintf("was still inside one item %s after the deadline and was killed", grace)
			}
			if f := verdicts[i]; f != nil {
				merged.Failures = append(merged.Failures, *f)
				merged.FailTotal++
				fmt.Fprintf(os.Stderr, "worker %d %s while executing family %q item %q; re-executed alone: %s\n", i, how, fam, clip(item, 300), f.Sig)
			} else {
				harnessErrs = append(harnessErrs, fmt.Sprintf("worker %d %s (%v) while executing family %q item %q: %s", i, how, werr, fam, clip(item, 300), first))
			}
			if len(tail) > 3000 {
				tail = tail[:3000]
			}
			fmt.Fprintf(os.Stderr, "---- worker %d stderr ----\n%s\n", i, tail)
			merged.Exhaustive = false
			continue
		}
		merged.Evaluations += r.Evaluations
		merged.NonTrivial += r.NonTrivial
		merged.FailTotal += r.FailTotal
		for k, v := range r.Counters {
			merged.Counters[k] += v
		}
		for k, v := range r.MaxCounters {
			if v > merged.MaxCounters[k] {
				merged.MaxCounters[k] = v
			}
		}
		for k, s := range r.Sets {
			if merged.Sets[k] == nil {
				merged.Sets[k] = map[string]int{}
			}
			for m, cnt := range s {
				merged.Sets[k][m] += cnt
			}
		}
		if len(merged.Samples) < 12 {
			for _, s := range r.Samples {
				if len(merged.Samples) < 12 {
					merged.Samples = append(merged.Samples, s)
				}
			}
		}
		merged.Failures = append(merged.Failures, r.Failures...)
		if !r.Exhaustive {
			merged.Exhaustive = false
			if merged.CapNote == "" {
				merged.CapNote = r.CapNote
			}
		}
		if r.HarnessErr != "" {
			harnessErrs = append(harnessErrs, r.HarnessErr)
		}
	}

	// bucket failures
	known, kerr := loadKnown()
	if kerr != nil {
		harnessErrs = append(harnessErrs, "known_findings.json: "+kerr.Error())
	}
	sort.Slice(merged.Failures, func(i, j int) bool {
		a, b := merged.Failures[i], merged.Failures[j]
		if a.Sig != b.Sig {
			return a.Sig < b.Sig
		}
		if len(a.Witness) != len(b.Witness) {
			return len(a.Witness) < len(b.Witness)
		}
		return a.Witness < b.Witness
	})
	if dump := os.Getenv("VERIF_DUMP_FAILURES"); dump != "" {
		db, _ := json.MarshalIndent(merged.Failures, "", " ")
		os.WriteFile(dump, db, 0o644)
	}
	seenBucket := map[string]bool{}
	knownHit := map[*KnownFinding]int{}
	violations := 0
	violationLines := []string{}
	os.MkdirAll(filepath.Join(VerifDir, "replays", id), 0o755)
	for _, f := range merged.Failures {
		k := f.Sig + "\x00" + f.Witness
		if seenBucket[k] {
			continue
		}
		seenBucket[k] = true
		if f.Sig == "harness:cannot-run-binary" || f.Sig == "harness:bad-payload" {
			// the check could not judge the item (bad payload, binary cannot be started): not a verdict on the subject
			harnessErrs = append(harnessErrs, fmt.Sprintf("%s on item %s: %s", f.Sig, clip(f.Witness, 200), clip(f.Detail, 300)))
			continue
		}
		if kf := matchKnown(known, id, f); kf != nil {
			knownHit[kf]++
			continue
		}
		violations++
		if violations <= 25 {
			path := filepath.Join(VerifDir, "replays", id, fmt.Sprintf("%016x.json", hash64(k)))
			rb, _ := json.MarshalIndent(map[string]any{"property": id, "tier": tier, "family": f.Family, "sig": f.Sig, "witness": f.Witness, "item": f.Item, "detail": f.Detail}, "", " ")
			os.WriteFile(path, rb, 0o644)
			violationLines = append(violationLines, fmt.Sprintf("VIOLATION property=%s replay=%s", id, path))
			fmt.Fprintf(os.Stderr, "violation: sig=%s\n  witness=%s\n  detail=%s\n", f.Sig, clip(f.Witness, 600), clip(f.Detail, 600))
		}
	}
	knownLines := []string{}
	for i := range known {
		kf := &known[i]
		if kf.Property != id || kf.Status != "known" {
			continue
		}
		if knownHit[kf] > 0 {
			knownLines = append(knownLines, fmt.Sprintf("KNOWN-FINDING: property=%s %s", id, kf.Description))
		} else if merged.Exhaustive {
			fmt.Fprintf(os.Stderr, "note: known finding not reproduced by this run (stale or outside this tier): %s\n", kf.Description)
		}
	}

	cov := map[string]any{
		"evaluations":         merged.Evaluations,
		"distinct_nontrivial": merged.NonTrivial,
		"rule":                c.Rule,
		"samples":             merged.Samples,
		"exhaustive":          merged.Exhaustive && len(harnessErrs) == 0,
		"failing_items":       merged.FailTotal,
		"failure_buckets":     len(seenBucket),
		"known_finding_hits":  len(knownLines),
		"workers":             n,
	}
	if merged.CapNote != "" {
		cov["cap_note"] = merged.CapNote
	}
	for k, v := range merged.Counters {
		cov[k] = v
	}
	for k, v := range merged.MaxCounters {
		cov[k] = v
	}
	for k, s := range merged.Sets {
		names := make([]string, 0, len(s))
		for m := range s {
			names = append(names, m)
		}
		sort.Strings(names)
		if k == "states" {
			cov["states"] = len(names) // distinct canonical state keys of an explicit-state search
			continue
		}
		cov["distinct_"+k] = len(names)
		if len(names) <= 80 {
			cov[k] = names
		}
	}
	if len(merged.Samples) == 0 {
		cov["samples"] = []any{"(no samples recorded)"}
	}
	if len(harnessErrs) > 0 {
		cov["harness_errors"] = harnessErrs
	}
	if coverDir != "" {
		os.Setenv("VERIF_COVER_ID", id)
		if byFile := statementCoverage(coverDir); len(byFile) > 0 {
			cov["statement_coverage_percent_by_file"] = byFile
		}
	}
	ev := Evidence{PropertyID: id, Tier: tier, Seed: seed, Level: c.Level, Coverage: cov, Assumptions: c.Assumptions, WallS: time.Since(start).Seconds(), Violations: violations}
	if ev.Assumptions == nil {
		ev.Assumptions = []string{}
	}
	eb, _ := json.MarshalIndent(ev, "", " ")
	os.MkdirAll(filepath.Join(VerifDir, "evidence"), 0o755)
	if err := os.WriteFile(filepath.Join(VerifDir, "evidence", id+".json"), eb, 0o644); err != nil {
		fmt.Fprintln(os.Stderr, "cannot write evidence:", err)
		return 2
	}

	for _, l := range knownLines {
		fmt.Println(l)
	}
	for _, l := range violationLines {
		fmt.Println(l)
	}
	fmt.Fprintf(os.Stderr, "%s %s: evaluations=%d distinct_nontrivial=%d failing_items=%d buckets=%d known=%d violations=%d exhaustive=%v wall=%.1fs\n",
		id, tier, merged.Evaluations, merged.NonTrivial, merged.FailTotal, len(seenBucket), len(knownLines), violations, cov["exhaustive"], time.Since(start).Seconds())
	if len(harnessErrs) > 0 {
		for _, e := range harnessErrs {
			fmt.Fprintln(os.Stderr, "HARNESS ERROR:", e)
		}
		if violations > 0 {
			return 1
		}
		return 2
	}
	if violations > 0 {
		return 1
	}
	return 0
}

// isolatedVerdict re-executes one item alone in a fresh process after the worker executing it died or was killed
// for not finishing. The item fails if it fails again alone: with a signature of its own, by killing the process
// again, or by not finishing within 180 s a second time (items take milliseconds to a few seconds). nil: the item is
// fine alone, the loss of the worker stays a harness error.
func isolatedVerdict(self, id, fam, item string, wasStalled bool) *Failure {
	if item == "" {
		return nil
	}
	if !strings.HasPrefix(item, "{") {
		// session checks shard by the statements joined with a separator line; their payload is {"stmts": [...]}
		b, _ := json.Marshal(map[string][]string{"stmts": strings.Split(item, "\n----\n")})
		item = string(b)
	}
	sig, detail, died, timedOut := ExecIsolated(self, id, item, 180*time.Second)
	switch {
	case timedOut && wasStalled:
		return &Failure{Family: fam, Item: item, Witness: item, Sig: "nontermination:" + fam, Detail: "executing this item does not finish: the worker was killed long after the deadline and a fresh process executing only this item was killed after 180 s"}
	case timedOut:
		return nil
	case died != "":
		return &Failure{Family: fam, Item: item, Witness: item, Sig: "host-fatal:" + fam, Detail: "executing this item kills the process, twice: " + died}
	case strings.HasPrefix(sig, "harness:"):
		return nil
	case sig != "":
		return &Failure{Family: fam, Item: item, Witness: item, Sig: sig, Detail: detail}
	}
	return nil
}

// ExecIsolated runs `vcheck exec id item` in a fresh process.
func ExecIsolated(self, id, item string, limit time.Duration) (sig, detail, died string, timedOut bool) {
	cmd := exec.Command(self, "exec", id, item)
	cmd.SysProcAttr = &syscall.SysProcAttr{Setpgid: true}
	var out strings.Builder
	cmd.Stderr = &out
	cmd.Stdout = &out
	if err := cmd.Start(); err != nil {
		return "harness:cannot-start", err.Error(), "", false
	}
	done := make(chan error, 1)
	go func() { done <- cmd.Wait() }()
	select {
	case err := <-done:
		o := out.String()
		if i := strings.LastIndex(o, "\x00EXEC-RESULT\x00"); i >= 0 {
			var r struct{ Sig, Detail string }
			if json.Unmarshal([]byte(o[i+len("\x00EXEC-RESULT\x00"):]), &r) == nil {
				return r.Sig, r.Detail, "", false
			}
		}
		if err != nil {
			d := firstFatalLine(o)
			if strings.TrimSpace(d) == "" {
				d = "the process ended without a result: " + err.Error()
			}
			return "", "", d, false
		}
		return "harness:no-result", clip(o, 300), "", false
	case <-time.After(limit):
		syscall.Kill(-cmd.Process.Pid, syscall.SIGKILL)
		<-done
		return "", "", "", true
	}
}

func firstFatalLine(s string) string {
	for _, l := range strings.Split(s, "\n") {
		if strings.HasPrefix(l, "fatal error:") || strings.HasPrefix(l, "panic:") || strings.HasPrefix(l, "runtime:") {
			return l
		}
	}
	if len(s) > 200 {
		return s[:200]
	}
	return s
}

// ReplayMain re-executes the witness (and the original item) of a replay file.
func ReplayMain(path string) int {
	b, err := os.ReadFile(path)
	if err != nil {
		fmt.Fprintln(os.Stderr, err)
		return 2
	}
	var r struct {
		Property, Sig, Witness, Item string
	}
	if err := json.Unmarshal(b, &r); err != nil {
		fmt.Fprintln(os.Stderr, err)
		return 2
	}
	c := Lookup(r.Property)
	if c == nil || c.Exec == nil {
		fmt.Fprintln(os.Stderr, "no replayable check", r.Property)
		return 2
	}
	var sig, detail string
	if strings.HasPrefix(r.Sig, "nontermination:") || strings.HasPrefix(r.Sig, "host-fatal:") {
		self, _ := os.Executable()
		s2, d2, died, timedOut := ExecIsolated(self, r.Property, r.Witness, 180*time.Second)
		sig, detail = s2, d2
		if timedOut {
			sig, detail = r.Sig, "executing the witness alone in a fresh process did not finish within 180 s"
		} else if died != "" {
			sig, detail = r.Sig, "executing the witness alone kills the process: "+died
		}
	} else {
		sig, detail = c.Exec(r.Witness)
	}
	fmt.Printf("witness: %s\nexpected signature: %s\nobserved signature: %s\n%s\n", r.Witness, r.Sig, sig, detail)
	if sig != "" {
		fmt.Printf("VIOLATION property=%s replay=%s\n", r.Property, path)
		return 1
	}
	return 0
}

// statementCoverage turns the workers' coverage counters into statement coverage per source file of the
// subject (measured answer to "did the enumeration reach the code the property is anchored in").
func statementCoverage(dir string) map[string]float64 {
	prof := filepath.Join(dir, "profile.txt")
	cmd := exec.Command("go", "tool", "covdata", "textfmt", "-i="+dir, "-o="+prof)
	cmd.Env = append(os.Environ(), "GOFLAGS=-mod=mod", "GOPROXY=off", "GOSUMDB=off", "GOTOOLCHAIN=local")
	if out, err := cmd.CombinedOutput(); err != nil {
		fmt.Fprintf(os.Stderr, "covdata: %v %s\n", err, out)
		return nil
	}
	b, err := os.ReadFile(prof)
	if err != nil {
		return nil
	}
	type blk struct{ stmts, hit int }
	blocks := map[string]map[string]*blk{}
	for _, l := range strings.Split(string(b), "\n") {
		// file:startLine.startCol,endLine.endCol numStmts count
		i := strings.LastIndex(l, ":")
		if i < 0 || strings.HasPrefix(l, "mode:") {
			continue
		}
		file, rest := l[:i], l[i+1:]
		f := strings.Fields(rest)
		if len(f) != 3 || !strings.Contains(file, "paulsonkoly/calc/") {
			continue
		}
		ns, _ := strconv.Atoi(f[1])
		cnt, _ := strconv.Atoi(f[2])
		if blocks[file] == nil {
			blocks[file] = map[string]*blk{}
		}
		bb := blocks[file][f[0]]
		if bb == nil {
			bb = &blk{stmts: ns}
			blocks[file][f[0]] = bb
		}
		if cnt > 0 {
			bb.hit = 1
		}
	}
	// the blocks no worker executed, per file (coverage/<ID>.uncovered.txt: input for `coverunion.py`, which lists
	// what no check reaches at all)
	if id := os.Getenv("VERIF_COVER_ID"); id != "" {
		var lines []string
		for file, m := range blocks {
			name := file[strings.Index(file, "paulsonkoly/calc/")+len("paulsonkoly/calc/"):]
			for span, bb := range m {
				if bb.hit == 0 {
					lines = append(lines, name+":"+span)
				}
			}
		}
		sort.Strings(lines)
		os.MkdirAll(filepath.Join(VerifDir, "coverage"), 0o755)
		os.WriteFile(filepath.Join(VerifDir, "coverage", id+".uncovered.txt"), []byte(strings.Join(lines, "\n")+"\n"), 0o644)
	}
	res := map[string]float64{}
	for file, m := range blocks {
		tot, hit := 0, 0
		for _, bb := range m {
			tot += bb.stmts
			hit += bb.stmts * bb.hit
		}
		if tot > 0 {
			name := file[strings.Index(file, "paulsonkoly/calc/")+len("paulsonkoly/calc/"):]
			res[name] = float64(int(1000*float64(hit)/float64(tot))) / 10
		}
	}
	return res
}
