#!/bin/sh
# usage: mutbin.sh <patch> <out-binary> : builds cmd/calc with the patch applied (restores /repo afterwards)
p=$(readlink -f "$1"); out=$2
export GOFLAGS=-mod=mod GOPROXY=off GOSUMDB=off GOTOOLCHAIN=local
cd /repo && git apply "$p" && go build -o "$out" ./cmd/calc; git checkout -- .
