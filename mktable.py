#!/usr/bin/env python3
"""Prints the measured columns of DESIGN §0.2 from evidence/*.json (items, non-trivial, states/transitions, wall)."""
import json, glob, os
for f in sorted(glob.glob(os.path.join(os.path.dirname(os.path.abspath(__file__)), 'evidence', 'C*.json'))):
    e = json.load(open(f)); c = e['coverage']
    extra = []
    for k in ('states', 'transitions', 'traces_validated_against_impl'):
        if k in c: extra.append(f"{k} {c[k]:,}".replace(',', ' '))
    print(f"| {e['property_id']} | {e['level']} | {e['tier']} | {c['evaluations']:,} | {c['distinct_nontrivial']:,} | {'; '.join(extra)} | {'yes' if c['exhaustive'] else 'no: ' + c.get('cap_note','')} | {e['wall_s']:.0f} s |".replace(',', ' '))
