package checks

import (
	"encoding/json"
	"fmt"
	"strings"

	c "github.com/paulsonkoly/calc/combinator"
	"github.com/paulsonkoly/calc/lexer"
	"github.com/paulsonkoly/calc/types/token"

	"vharness/internal/core"
	"vharness/internal/impl"
)

// C13: backtracking is invisible.
//   (a) explicit-state search over Next/Snapshot/Rollback/Commit on the real TLexer
//   (b) all combinator terms to a depth bound x all short token streams against an ordered-choice recogniser

// ------------------------------------------------------------------ (a) transactional lexer

type tlRecord struct {
	Ok       bool
	Kind     string
	Value    string
	Err      string
	From, To int
}

func tlObserve(tl *lexer.TLexer, ok bool) tlRecord {
	r := tlRecord{Ok: ok}
	if !ok {
		return r
	}
	t := tl.Token().(token.Type)
	r.Kind, r.Value = kindName(t.Type), t.Value
	if e := tl.Err(); e != nil {
		r.Err = e.Error()
	}
	r.From, r.To = tl.From(), tl.To()
	return r
}

// freshScan is the model: what a plain scan (Next only) returns, capped.
func freshScan(input string, n int) []tlRecord {
	tl := lexer.NewTLexer(input)
	recs := []tlRecord{}
	for i := 0; i < n; i++ {
		ok := tl.Next()
		recs = append(recs, tlObserve(&tl, ok))
		if !ok {
			break
		}
	}
	return recs
}

const tlOps = "NSRC" // Next, Snapshot, Rollback, Commit

// tlReplay runs an op string on a fresh real TLexer next to the model and
// returns the first divergence (sig "" = none) and the canonical state key.
func tlReplay(input, ops string, scan []tlRecord) (sig, detail, key string) {
	defer func() {
		if r := recover(); r != nil {
			sig, detail = "tlexer-panic", fmt.Sprintf("input %q ops %s: %v @%s", input, ops, r, impl.PanicSite())
		}
	}()
	tl := lexer.NewTLexer(input)
	pos := -1 // model: index of the current token
	stack := []int{}
	for i := 0; i < len(ops); i++ {
		switch ops[i] {
		case 'N':
			ok := tl.Next()
			var want tlRecord
			if pos+1 < len(scan) {
				want = scan[pos+1]
			} else {
				return "harness:scan-too-short", "", ""
			}
			if want.Ok {
				pos++
			}
			got := tlObserve(&tl, ok)
			if got != want {
				return "tlexer-diverges-from-fresh-scan", fmt.Sprintf("input %q after %s: Next gives %+v, a fresh scan resumed at token %d gives %+v", input, ops[:i+1], got, pos, want), ""
			}
		case 'S':
			tl.Snapshot()
			stack = append(stack, pos)
		case 'R':
			tl.Rollback()
			pos = stack[len(stack)-1]
			stack = stack[:len(stack)-1]
		case 'C':
			tl.Commit()
			stack = stack[:len(stack)-1]
		}
		// the current token must stay readable and equal to the model's after every operation
		if pos >= 0 {
			got := tlObserve(&tl, true)
			if got != scan[pos] {
				return "tlexer-current-token", fmt.Sprintf("input %q after %s: current token %+v, model %+v", input, ops[:i+1], got, scan[pos]), ""
			}
		}
	}
	readp, writep, ptrs := tl.VerifTLexerState()
	if readp != pos || len(ptrs) != len(stack) {
		return "tlexer-position", fmt.Sprintf("input %q after %s: readp=%d snapshots=%v, model position %d snapshots %v", input, ops, readp, ptrs, pos, stack), ""
	}
	return "", "", fmt.Sprintf("%d/%d/%v", readp, writep, ptrs)
}

// c13LongScan: on an input of several hundred tokens, two nested snapshots opened at every pair of positions
// (p1 < p2) and rolled back from every later position p3, then the scan continues: whatever buffering the
// transactional lexer does, the tokens after the rollbacks must be the ones a fresh scan gives at that position.
func c13LongScan(w *core.W, tokens int) {
	parts := make([]string, tokens)
	for i := range parts {
		parts[i] = string(rune('a'+i%26)) + string(rune('a'+(i/26)%26))
	}
	input := strings.Join(parts, " ")
	scan := freshScan(input, tokens+4)
	w.Family("tlexer-long-scan")
	step := 7
	if w.Thorough() {
		step = 3
	}
	item := 0
	for p1 := 0; p1 < tokens; p1 += step {
		for _, gap := range []int{1, 2, 5, 90, 255, 256, 257} {
			p2 := p1 + gap
			if p2 >= tokens {
				continue
			}
			item++
			if !w.Mine(fmt.Sprintf("p1=%d p2=%d", p1, p2)) {
				continue
			}
			for p3 := p2; p3 <= tokens; p3 += 1 + (p3-p2)/8 {
				for _, mode := range []string{"RR", "CR", "RC"} {
					ops := strings.Repeat("N", p1) + "S" + strings.Repeat("N", p2-p1) + "S" + strings.Repeat("N", p3-p2) + mode + "NNN"
					w.Evals(1)
					w.Count("transitions", int64(len(ops)))
					w.Count("traces_validated_against_impl", 1)
					if sig, detail, _ := tlReplay(input, ops, scan); sig != "" {
						b, _ := json.Marshal(map[string]string{"kind": "tlexer", "input": input, "ops": ops})
						w.Fail(string(b), sig, clipStr(detail, 600))
						break
					}
				}
			}
			w.NonTrivial()
			if w.Expired("time budget reached in the long TLexer scan") {
				return
			}
		}
	}
}

func c13TLexer(w *core.W, depth int) {
	inputs := []string{"", "1", "a b", "1 + 2", "f(x)\n", "1 £ 2", "\"s\" [1\n2] z", "a ; c\nb"}
	for ii, input := range inputs {
		if ii%w.N != w.Shard {
			continue
		}
		w.Family("tlexer:" + input)
		scan := freshScan(input, depth+2)
		seen := map[string]bool{}
		frontier := []string{""}
		states, transitions := 0, 0
		for d := 0; d <= depth && len(frontier) > 0; d++ {
			next := []string{}
			for _, path := range frontier {
				sig, detail, key := tlReplay(input, path, scan)
				if sig != "" {
					b, _ := json.Marshal(map[string]string{"kind": "tlexer", "input": input, "ops": path})
					w.Fail(string(b), sig, detail)
					continue
				}
				// every path is extended, also one that reaches a (readp, writep, snapshots) seen before: the key is
				// what the hook shows of the state, and state it does not show must not be able to hide behind it
				if !seen[key] {
					seen[key] = true
					states++
				}
				if d == depth {
					continue
				}
				open := strings.Count(path, "S") - strings.Count(path, "R") - strings.Count(path, "C")
				for _, op := range tlOps {
					if (op == 'R' || op == 'C') && open == 0 {
						continue
					}
					transitions++
					next = append(next, path+string(op))
				}
			}
			frontier = next
			if w.Expired("time budget reached in the TLexer search") {
				break
			}
		}
		w.Mine(input)
		w.Evals(int64(transitions))
		w.NonTrivialN(int64(states))
		w.Count("states", int64(states))
		w.Count("transitions", int64(transitions))
		w.Count("traces_validated_against_impl", int64(transitions))
		w.Max("tlexer_depth", int64(depth))
	}
}

// ------------------------------------------------------------------ (b) combinators

type term struct {
	Op   string  // accept ok and seq oneof choose any sepby surr assert not drop fmap
	X    string  // token for accept
	Args []*term // sub-terms
}

func (t *term) String() string {
	switch t.Op {
	case "accept":
		return t.X
	case "ok":
		return "Ok"
	}
	p := make([]string, len(t.Args))
	for i, a := range t.Args {
		p[i] = a.String()
	}
	return t.Op + "(" + strings.Join(p, ",") + ")"
}

type strWrap struct{}

func tokValue(t c.Token) string {
	switch x := t.(type) {
	case token.Type:
		return x.Value
	case listTok:
		return x.v
	}
	return "?"
}

func (strWrap) Wrap(t c.Token) c.Node { return tokValue(t) }

func fmapF(ns []c.Node) []c.Node {
	p := make([]string, len(ns))
	for i, n := range ns {
		p[i] = n.(string)
	}
	return []c.Node{"F(" + strings.Join(p, " ") + ")"}
}

func build(t *term) c.Parser {
	a := func(i int) c.Parser { return build(t.Args[i]) }
	switch t.Op {
	case "accept":
		x := t.X
		return c.Accept(func(tk c.Token) bool { return tokValue(tk) == x }, x, strWrap{})
	case "ok":
		return c.Ok()
	case "and":
		return c.And(a(0), a(1))
	case "seq":
		return c.Seq(a(0), a(1), a(2))
	case "oneof":
		return c.OneOf(a(0), a(1))
	case "seqone":
		return c.Seq(a(0))
	case "oneofone":
		return c.OneOf(a(0))
	case "oneofthree":
		return c.OneOf(a(0), a(1), a(2))
	case "choose":
		return c.Choose(c.Conditional{Gate: a(0), OnSuccess: a(1)}, c.Conditional{Gate: c.Ok(), OnSuccess: a(2)})
	case "any":
		return c.Any(c.Conditional{Gate: a(0), OnSuccess: a(1)})
	case "sepby":
		return c.SeparatedBy(a(0), a(1))
	case "surr":
		return c.SurroundedBy(a(0), a(1), a(2))
	case "assert":
		return c.Assert(a(0))
	case "not":
		return c.Not(a(0))
	case "drop":
		return c.Drop(a(0))
	case "fmap":
		return c.Fmap(fmapF, a(0))
	}
	panic("c13: op " + t.Op)
}

// model: ordered-choice recogniser. ill is set when the term can loop without consuming.
type mres struct {
	ok  bool
	pos int
	res []string
}

func model(t *term, toks []string, pos int, ill *bool) mres {
	fail := mres{}
	a := func(i int, p int) mres { return model(t.Args[i], toks, p, ill) }
	switch t.Op {
	case "accept":
		if pos < len(toks) && toks[pos] == t.X {
			return mres{true, pos + 1, []string{t.X}}
		}
		return fail
	case "ok":
		return mres{true, pos, nil}
	case "and", "seq", "seqone":
		res := []string{}
		p := pos
		for i := range t.Args {
			r := a(i, p)
			if !r.ok {
				return fail
			}
			res = append(res, r.res...)
			p = r.pos
		}
		return mres{true, p, res}
	case "oneof", "oneofone", "oneofthree":
		for i := range t.Args {
			if r := a(i, pos); r.ok {
				return r
			}
		}
		return fail
	case "choose":
		if g := a(0, pos); g.ok {
			s := a(1, g.pos)
			if !s.ok {
				return fail
			}
			return mres{true, s.pos, append(append([]string{}, g.res...), s.res...)}
		}
		return a(2, pos)
	case "any":
		res := []string{}
		p := pos
		for {
			g := a(0, p)
			if !g.ok {
				return mres{true, p, res}
			}
			s := a(1, g.pos)
			if !s.ok {
				return fail
			}
			if s.pos == p {
				*ill = true
				return fail
			}
			res = append(append(res, g.res...), s.res...)
			p = s.pos
		}
	case "sepby":
		r := a(0, pos)
		if !r.ok {
			return mres{true, pos, nil}
		}
		res := append([]string{}, r.res...)
		p := r.pos
		for {
			b := a(1, p)
			if !b.ok {
				return mres{true, p, res}
			}
			n := a(0, b.pos)
			if !n.ok {
				return mres{true, p, res}
			}
			if n.pos == p {
				*ill = true
				return fail
			}
			res = append(res, n.res...)
			p = n.pos
		}
	case "surr":
		x := a(0, pos)
		if !x.ok {
			return fail
		}
		y := a(1, x.pos)
		if !y.ok {
			return fail
		}
		z := a(2, y.pos)
		if !z.ok {
			return fail
		}
		return mres{true, z.pos, y.res}
	case "assert":
		if r := a(0, pos); r.ok {
			return mres{true, pos, nil}
		}
		return fail
	case "not":
		if r := a(0, pos); r.ok {
			return fail
		}
		return mres{true, pos, nil}
	case "drop":
		if r := a(0, pos); r.ok {
			return mres{true, r.pos, nil}
		}
		return fail
	case "fmap":
		r := a(0, pos)
		if !r.ok {
			return fail
		}
		return mres{true, r.pos, []string{"F(" + strings.Join(r.res, " ") + ")"}}
	}
	panic("c13: model op " + t.Op)
}

// listLexer: harness-side RollbackLexer over a token slice.
type listTok struct {
	v        string
	from, to int
}

func (t listTok) From() int { return t.from }
func (t listTok) To() int   { return t.to }

type listLexer struct {
	toks  []listTok
	pos   int
	stack []int
}

func (l *listLexer) Next() bool {
	if l.pos+1 < len(l.toks) {
		l.pos++
		return true
	}
	return false
}
func (l *listLexer) From() int {
	if l.pos < 0 || l.pos >= len(l.toks) {
		return 0
	}
	return l.toks[l.pos].from
}
func (l *listLexer) To() int {
	if l.pos < 0 || l.pos >= len(l.toks) {
		return 0
	}
	return l.toks[l.pos].to
}
func (l *listLexer) Err() error     { return nil }
func (l *listLexer) Token() c.Token { return l.toks[l.pos] }
func (l *listLexer) Snapshot()      { l.stack = append(l.stack, l.pos) }
func (l *listLexer) Rollback()      { l.pos = l.stack[len(l.stack)-1]; l.stack = l.stack[:len(l.stack)-1] }
func (l *listLexer) Commit()        { l.stack = l.stack[:len(l.stack)-1] }

// counting wrapper: bounds the number of lexer operations (a combinator that loops without consuming never calls Next).
type countLexer struct {
	c.RollbackLexer
	n, max int
}

func (l *countLexer) tick() {
	l.n++
	if l.n > l.max {
		panic(impl.FuelPanic{What: "combinator"})
	}
}
func (l *countLexer) Next() bool { l.tick(); return l.RollbackLexer.Next() }
func (l *countLexer) Snapshot()  { l.tick(); l.RollbackLexer.Snapshot() }

type cobs struct {
	ok     bool
	res    string
	rest   string
	panic_ string
	hung   bool
}

func runTerm(p c.Parser, stream []string, real bool) (o cobs) {
	var in c.RollbackLexer
	if real {
		tl := lexer.NewTLexer(strings.Join(stream, " "))
		in = &tl
	} else {
		ll := &listLexer{pos: -1}
		for i, s := range stream {
			ll.toks = append(ll.toks, listTok{s, i, i + 1})
		}
		in = ll
	}
	cl := &countLexer{RollbackLexer: in, max: 4000}
	defer func() {
		if r := recover(); r != nil {
			if _, ok := r.(impl.FuelPanic); ok {
				o.hung = true
			} else {
				o.panic_ = fmt.Sprint(r) + " @" + impl.PanicSite()
			}
		}
	}()
	ns, err := p(cl)
	o.ok = err == nil
	if err == nil {
		parts := make([]string, len(ns))
		for i, n := range ns {
			parts[i] = n.(string)
		}
		o.res = strings.Join(parts, " ")
		rest := []string{}
		for cl.Next() {
			rest = append(rest, tokValue(cl.Token()))
		}
		o.rest = strings.Join(rest, " ")
	}
	return o
}

func modelStream(stream []string, real bool) []string {
	if real {
		return append(append([]string{}, stream...), "\n", "\x00")
	}
	return stream
}

// c13JudgeTerm runs one term on one stream over one lexer kind, bare and wrapped as OneOf(T, Ok).
func c13JudgeTerm(t *term, stream []string, real bool) (sig, detail string, illFormed bool) {
	toks := modelStream(stream, real)
	for _, wrapped := range []bool{false, true} {
		tt := t
		if wrapped {
			tt = &term{Op: "oneof", Args: []*term{t, {Op: "ok"}}}
		}
		ill := false
		m := model(tt, toks, 0, &ill)
		if ill {
			return "", "", true
		}
		o := runTerm(build(tt), stream, real)
		which := fmt.Sprintf("%s on stream %v (%s lexer)", tt, stream, map[bool]string{true: "TLexer", false: "list"}[real])
		if o.panic_ != "" {
			return "combinator-panic", which + ": " + o.panic_, false
		}
		if o.hung {
			return "combinator-loops", which + ": more than 4000 lexer operations", false
		}
		if o.ok != m.ok {
			return "accept-reject:" + topOps(tt), fmt.Sprintf("%s: combinators %s, ordered-choice recogniser %s", which, acc(o.ok), acc(m.ok)), false
		}
		if !o.ok {
			continue
		}
		if want := strings.Join(m.res, " "); o.res != want {
			return "result-differs:" + topOps(tt), fmt.Sprintf("%s: result %q, recogniser %q", which, o.res, want), false
		}
		if want := strings.Join(toks[m.pos:], " "); o.rest != want {
			return "position-differs:" + topOps(tt), fmt.Sprintf("%s: input left %q, recogniser leaves %q", which, o.rest, want), false
		}
	}
	return "", "", false
}

func acc(b bool) string {
	if b {
		return "accept"
	}
	return "reject"
}

func topOps(t *term) string {
	s := t.Op
	for _, a := range t.Args {
		if a.Op != "accept" && a.Op != "ok" {
			s += "/" + a.Op
			break
		}
	}
	return s
}

type combSpec struct {
	op    string
	arity int
}

var combinators = []combSpec{{"and", 2}, {"oneof", 2}, {"any", 2}, {"sepby", 2}, {"assert", 1}, {"not", 1}, {"drop", 1}, {"fmap", 1}, {"choose", 3}, {"surr", 3}, {"seq", 3}}

// outerOnly: further arities of Seq and OneOf, applied as the outermost combinator only (not as arguments of others)
var outerOnly = []combSpec{{"seqone", 1}, {"oneofone", 1}, {"oneofthree", 3}}

func prims() []*term {
	return []*term{{Op: "accept", X: "a"}, {Op: "accept", X: "b"}, {Op: "ok"}}
}

// termsOver builds every application of every combinator to arguments drawn
// from args (third argument of the ternary ones from third).
func termsOver(args, third []*term, f func(*term) bool) bool {
	return termsOverOf(combinators, args, third, f)
}

func termsOverOf(combs []combSpec, args, third []*term, f func(*term) bool) bool {
	for _, cs := range combs {
		switch cs.arity {
		case 1:
			for _, a := range args {
				if !f(&term{Op: cs.op, Args: []*term{a}}) {
					return false
				}
			}
		case 2:
			for _, a := range args {
				for _, b := range args {
					if !f(&term{Op: cs.op, Args: []*term{a, b}}) {
						return false
					}
				}
			}
		case 3:
			for _, a := range args {
				for _, b := range args {
					for _, x := range third {
						if !f(&term{Op: cs.op, Args: []*term{a, b, x}}) {
							return false
						}
					}
				}
			}
		}
	}
	return true
}

func streams(maxLen int) [][]string {
	out := [][]string{{}}
	alpha := []string{"a", "b", "c"}
	prev := [][]string{{}}
	for l := 1; l <= maxLen; l++ {
		cur := [][]string{}
		for _, p := range prev {
			for _, x := range alpha {
				cur = append(cur, append(append([]string{}, p...), x))
			}
		}
		out = append(out, cur...)
		prev = cur
	}
	return out
}

func c13Exec(payload string) (string, string) {
	var p struct {
		Kind   string
		Input  string
		Ops    string
		Term   *term
		Stream []string
		Real   bool
	}
	if err := json.Unmarshal([]byte(payload), &p); err != nil {
		return "harness:bad-payload", err.Error()
	}
	if p.Kind == "tlexer" {
		sig, detail, _ := tlReplay(p.Input, p.Ops, freshScan(p.Input, len(p.Ops)+2))
		return sig, detail
	}
	sig, detail, _ := c13JudgeTerm(p.Term, p.Stream, p.Real)
	return sig, detail
}

func init() {
	core.Register(&core.Check{
		ID:    "C13",
		Level: "model_checking",
		Rule: "(a) breadth-first search over all sequences of Next/Snapshot/Rollback/Commit (Rollback/Commit only with an open snapshot) on the real TLexer for 8 inputs, every path executed (states = distinct (readp, writep, snapshot stack), counted but not used for pruning), every step compared with a fresh plain scan; plus, on a 700-token input, two nested snapshots opened at every 7th (3rd) position p1 and p2 = p1 + {1, 2, 5, 90, 255, 256, 257} and rolled back / committed from a dense set of later positions; " +
			"(b) every parser term built from Accept a, Accept b, Ok and And/Seq (1 and 3 parsers)/OneOf (1, 2 and 3 parsers)/Choose/Any/SeparatedBy/SurroundedBy/Assert/Not/Drop/Fmap to depth 2 (quick: third argument of ternary combinators primitive) x all 121 token streams over {a,b,c} of length <= 4 x {bare, wrapped in OneOf(T, Ok)} x {real TLexer, list lexer}, compared with an ordered-choice recogniser on accept/reject, result list and input position left; " +
			"states = distinct TLexer states; distinct_nontrivial = TLexer states + (term, stream, lexer) triples on which the term consumed input or failed after consuming",
		Assumptions: []string{
			"the (readp, writep, snapshot stack) key is sound because transaction.go branches on nothing else",
			"terms that can loop without consuming input (Any / SeparatedBy over nullable parsers) are ill-formed and skipped, decided by the recogniser before the real parser is run",
			"the position left by a failing parser is only observed through a restoring combinator (OneOf(T, Ok)), as the property states it",
		},
		Exec: c13Exec,
		Run:  c13Run,
	})
}

func c13Run(w *core.W) {
	w.NoCur = true
	depth := 9
	if w.Thorough() {
		depth = 11
	}
	c13TLexer(w, depth)
	c13LongScan(w, 700)

	strs := streams(4)
	d0 := prims()
	d1 := append([]*term{}, d0...)
	termsOver(d0, d0, func(t *term) bool { d1 = append(d1, t); return true })
	third := d0
	if w.Thorough() {
		third = d1
	}
	idx := 0
	judge := func(t *term) bool {
		idx++
		if !w.Mine(t.String()) {
			return true
		}
		for _, real := range []bool{true, false} {
			for _, s := range strs {
				sig, detail, ill := c13JudgeTerm(t, s, real)
				if ill {
					w.Count("ill_formed_skipped", 1)
					continue
				}
				w.Evals(2)
				w.Count("traces_validated_against_impl", 2)
				if len(s) > 0 {
					w.NonTrivialN(1)
				}
				if sig != "" {
					b, _ := json.Marshal(map[string]any{"kind": "term", "term": t, "stream": s, "real": real})
					w.Fail(string(b), sig, detail)
					break
				}
			}
		}
		return idx%64 != 0 || !w.Expired("time budget reached while enumerating terms")
	}
	w.Family("terms-depth<=1")
	for _, t := range d1 {
		if !judge(t) {
			return
		}
	}
	if !termsOverOf(outerOnly, d0, d0, judge) {
		return
	}
	w.Family("terms-depth2")
	if !termsOver(d1, third, judge) {
		return
	}
	termsOverOf(outerOnly, d1, third, judge)
}
