// Command vcheck runs the bounded-exhaustive checks of the calc properties.
package main

import (
	"encoding/json"
	"fmt"
	"os"
	"strconv"

	"vharness/internal/checks"
	"vharness/internal/core"
)

func main() {
	if len(os.Args) < 2 {
		usage()
	}
	switch os.Args[1] {
	case "check":
		if len(os.Args) < 3 {
			usage()
		}
		tier := "quick"
		for i := 3; i < len(os.Args); i++ {
			if os.Args[i] == "--tier" && i+1 < len(os.Args) {
				tier = os.Args[i+1]
			}
		}
		if tier != "quick" && tier != "thorough" {
			usage()
		}
		self, err := os.Executable()
		if err != nil {
			fmt.Fprintln(os.Stderr, err)
			os.Exit(2)
		}
		os.Exit(core.CheckMain(os.Args[2], tier, self))
	case "worker":
		a := os.Args[2:]
		if len(a) != 8 {
			usage()
		}
		shard, _ := strconv.Atoi(a[2])
		n, _ := strconv.Atoi(a[3])
		seed, _ := strconv.ParseInt(a[4], 10, 64)
		dl, _ := strconv.ParseInt(a[7], 10, 64)
		os.Exit(core.WorkerMain(a[0], a[1], shard, n, seed, a[5], a[6], dl))
	case "replay":
		if len(os.Args) < 3 {
			usage()
		}
		os.Exit(core.ReplayMain(os.Args[2]))
	case "exec":
		// debugging aid: vcheck exec <ID> <payload>
		c := core.Lookup(os.Args[2])
		sig, detail := c.Exec(os.Args[3])
		fmt.Fprintf(os.Stderr, "sig=%q\ndetail=%s\n", sig, detail)
		rb, _ := json.Marshal(map[string]string{"Sig": sig, "Detail": detail})
		fmt.Fprintf(os.Stderr, "\x00EXEC-RESULT\x00%s", rb)
	case "selftest":
		os.Exit(checks.SelftestMain())
	case "list":
		for _, id := range core.IDs() {
			fmt.Println(id)
		}
	default:
		usage()
	}
}

func usage() {
	fmt.Fprintln(os.Stderr, "usage: vcheck check <ID> --tier quick|thorough | replay <file> | list")
	os.Exit(2)
}
