//go:build verif

package sess

import (
	"testing"

	"vharness/internal/impl"
)

var benchSession = []string{
	"second = (a, b) -> b", "id = (a) -> a", "gi = 2", "ga = [1, 2]", "ar = (n) -> n + 0 * 1",
	"noval = () -> if false 1", "mk = (ci, ca) -> (pi, pa) -> {\n  li = 2\n  la = [1, 2]\n  [1, 2][1:ar(3)] + id(2)\n}", "fn = mk(2, [1, 2])", "fn(2, [1, 2])",
}

func BenchmarkCompare(b *testing.B) {
	impl.Init()
	for i := 0; i < b.N; i++ {
		Compare(benchSession, Options{})
	}
}

func BenchmarkParseOnly(b *testing.B) {
	impl.Init()
	for i := 0; i < b.N; i++ {
		for _, s := range benchSession {
			impl.Parse(s, impl.ParseFuel(len(s)))
		}
	}
}

func BenchmarkNewSession(b *testing.B) {
	impl.Init()
	for i := 0; i < b.N; i++ {
		impl.NewSession()
	}
}
