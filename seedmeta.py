#!/usr/bin/env python3
"""Writes the detection results of the bulk runs (seeded/RESULTS.tsv, seeded/CROSS.tsv, first-run files) into every
seeded/<id>/meta.json: detected_by, run_not_detected, own_property_check, first_run_own_property_check."""
import json, glob, os, collections
root = os.path.dirname(os.path.abspath(__file__))
def load(fn):
    r = collections.defaultdict(dict)
    p = os.path.join(root, 'seeded', fn)
    if os.path.exists(p):
        for l in open(p):
            f = l.split()
            if len(f) >= 3 and f[0].startswith('C') and f[1].startswith('C'):
                if r[f[0]].get(f[1]) != 'DETECTED':
                    r[f[0]][f[1]] = ' '.join(f[2:])
    return r
final = load('RESULTS.tsv')
for sid, d in load('CROSS.tsv').items():
    for c, v in d.items():
        if final[sid].get(c) != 'DETECTED':
            final[sid][c] = v
first = load('FIRSTRUN.tsv')
for d in sorted([d for d in glob.glob(os.path.join(root, 'seeded', 'C*')) if os.path.isdir(d)]):
    mp = os.path.join(d, 'meta.json')
    m = json.load(open(mp))
    sid = m['id']; own = sid.split('-')[0]
    res = final.get(sid, {})
    m['detected_by'] = sorted(c for c, v in res.items() if v == 'DETECTED')
    m['run_not_detected'] = sorted(c for c, v in res.items() if v != 'DETECTED')
    m['own_property_check'] = 'DETECTED' if res.get(own) == 'DETECTED' else ('not run' if own not in res else 'missed')
    if sid in first and own in first[sid]:
        m['first_run_own_property_check'] = first[sid][own]
    m['checks_run'] = "./seedmatrix.sh <id> <checks> (scratch worktree of /repo with the patch applied + scratch copy of the harness pointed at it; quick tier); results in seeded/RESULTS.tsv, seeded/CROSS.tsv, first runs in seeded/FIRSTRUN.tsv"
    json.dump(m, open(mp, 'w'), indent=1)
print('updated', len([d for d in glob.glob(os.path.join(root, 'seeded', 'C*')) if os.path.isdir(d)]))
