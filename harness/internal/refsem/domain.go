package refsem

import (
	"github.com/paulsonkoly/calc/types/node"
)

// UseBeforeDef implements the domain restriction D-use-before-def (DESIGN.md
// §3.3) without reference to the implementation: a program is inside the
// description iff every variable read inside a function resolves the same way
// under the lexical rule (a name is the function's own variable from the
// first assignment in program text on) and under the dynamic rule (from the
// first executed assignment on). It returns true when some read is ambiguous.
//
// For a read of x in function F:  x is syntactically assigned earlier AND
// definitely assigned on every path reaching the read  → own variable in both;
// x is not syntactically assigned earlier AND no assignment of F may have
// executed before the read → non-local in both. Anything else is ambiguous.
// A non-local read of a name of the enclosing function is unambiguous only if
// that name was (syntactically and definitely) assigned before the inner
// function literal was evaluated.
func UseBeforeDef(trees ...node.Type) bool {
	amb, _ := AnalyzeDefUse(trees...)
	return amb
}

// AnalyzeDefUse is UseBeforeDef plus the names whose ambiguity is decided at run time: a read of x that follows an
// assignment of x in the text of the function but is not definitely reached through one (x assigned in one branch,
// or in a loop body that may run zero times). When no assignment was executed in the activation the lexical rule
// reads the function's own, still empty variable (nil); the dynamic rule looks outward. The two agree exactly when
// the outward lookup gives nil, which the interpreter checks at that read (Interp.Deferred, flag D-use-before-def).
func AnalyzeDefUse(trees ...node.Type) (ambiguous bool, deferred map[string]bool) {
	a := &duAnalyzer{deferred: map[string]bool{}}
	for _, t := range trees {
		st := &duState{top: true, S: set{}, M: set{}, Y: set{}}
		a.visit(t, st)
	}
	return a.ambiguous, a.deferred
}

// AssignedNames lists the names a function body assigns (for variables included), not entering inner functions.
func AssignedNames(body node.Type) map[string]bool {
	out := set{}
	assigned(body, out)
	return out
}

type set map[string]bool

func (s set) clone() set {
	r := set{}
	for k := range s {
		r[k] = true
	}
	return r
}

func union(a, b set) set {
	r := a.clone()
	for k := range b {
		r[k] = true
	}
	return r
}

func inter(a, b set) set {
	r := set{}
	for k := range a {
		if b[k] {
			r[k] = true
		}
	}
	return r
}

type duState struct {
	top     bool
	S, M, Y set
	// enclosing function at the point the literal was evaluated (nil: defined at top level)
	encS, encM, encAll set
	all                set // every name the function assigns anywhere, parameters included
}

type duAnalyzer struct {
	ambiguous bool
	deferred  map[string]bool
}

func (a *duAnalyzer) read(x string, st *duState) {
	if st.top {
		return
	}
	inS, inM, inY := st.S[x], st.M[x], st.Y[x]
	switch {
	case inS && inM:
		return
	case !inS && !inY:
		if st.encAll != nil && st.encAll[x] && !(st.encS[x] && st.encM[x]) {
			a.ambiguous = true
		}
	case inS && !inM:
		// assigned earlier in the text, not on every path: decided at run time
		a.deferred[x] = true
	default:
		a.ambiguous = true
	}
}

// assigned collects the names assigned in a subtree, not entering function literals.
func assigned(n node.Type, out set) {
	switch t := n.(type) {
	case node.Assign:
		out[string(t.VarRef.(node.Name))] = true
		assigned(t.Value, out)
	case node.For:
		for _, v := range t.VarRefs.Elems {
			out[string(v.(node.Name))] = true
		}
		for _, it := range t.Iterators.Elems {
			assigned(it, out)
		}
		assigned(t.Body, out)
	case node.Function:
		return
	case node.Block:
		for _, s := range t.Body {
			assigned(s, out)
		}
	case node.If:
		assigned(t.Condition, out)
		assigned(t.TrueCase, out)
	case node.IfElse:
		assigned(t.Condition, out)
		assigned(t.TrueCase, out)
		assigned(t.FalseCase, out)
	case node.While:
		assigned(t.Condition, out)
		assigned(t.Body, out)
	case node.Return:
		assigned(t.Target, out)
	case node.Yield:
		assigned(t.Target, out)
	case node.BinOp:
		assigned(t.Left, out)
		assigned(t.Right, out)
	case node.UnOp:
		assigned(t.Target, out)
	case node.IndexAt:
		assigned(t.Ary, out)
		assigned(t.At, out)
	case node.IndexFromTo:
		assigned(t.Ary, out)
		assigned(t.From, out)
		assigned(t.To, out)
	case node.List:
		for _, e := range t.Elems {
			assigned(e, out)
		}
	case node.Call:
		for _, e := range t.Arguments.Elems {
			assigned(e, out)
		}
	}
}

func (a *duAnalyzer) visit(n node.Type, st *duState) {
	switch t := n.(type) {
	case node.Int, node.Float, node.Bool, node.String:
	case node.Name:
		a.read(string(t), st)
	case node.List:
		for _, e := range t.Elems {
			a.visit(e, st)
		}
	case node.BinOp:
		a.visit(t.Left, st)
		a.visit(t.Right, st)
	case node.UnOp:
		a.visit(t.Target, st)
	case node.IndexAt:
		a.visit(t.Ary, st)
		a.visit(t.At, st)
	case node.IndexFromTo:
		a.visit(t.Ary, st)
		a.visit(t.From, st)
		a.visit(t.To, st)
	case node.Call:
		for _, e := range t.Arguments.Elems {
			a.visit(e, st)
		}
		a.visit(t.Name, st)
	case node.Function:
		inner := &duState{S: set{}, M: set{}, Y: set{}}
		for _, p := range t.Parameters.Elems {
			nm := string(p.(node.Name))
			inner.S[nm], inner.M[nm], inner.Y[nm] = true, true, true
		}
		inner.all = inner.S.clone()
		assigned(t.Body, inner.all)
		if !st.top {
			all := st.Y.clone()
			// every name the enclosing function assigns anywhere (later assignments included)
			for k := range st.allAssigned() {
				all[k] = true
			}
			inner.encS, inner.encM, inner.encAll = st.S.clone(), st.M.clone(), all
		}
		a.visit(t.Body, inner)
	case node.Assign:
		a.visit(t.Value, st)
		nm := string(t.VarRef.(node.Name))
		if !st.top {
			st.S[nm], st.M[nm], st.Y[nm] = true, true, true
		}
	case node.Block:
		for _, s := range t.Body {
			a.visit(s, st)
		}
	case node.If:
		a.visit(t.Condition, st)
		m := st.M.clone()
		a.visit(t.TrueCase, st)
		st.M = m
	case node.IfElse:
		a.visit(t.Condition, st)
		m0, y0 := st.M.clone(), st.Y.clone()
		a.visit(t.TrueCase, st)
		mT, yT := st.M, st.Y
		st.M, st.Y = m0, y0
		a.visit(t.FalseCase, st)
		st.M = inter(mT, st.M)
		st.Y = union(yT, st.Y)
	case node.While:
		loopAssigned := set{}
		assigned(t.Body, loopAssigned)
		m0 := st.M.clone()
		if !st.top {
			st.Y = union(st.Y, loopAssigned)
		}
		a.visit(t.Condition, st)
		a.visit(t.Body, st)
		st.M = m0
	case node.For:
		loopAssigned := set{}
		assigned(t.Body, loopAssigned)
		for _, v := range t.VarRefs.Elems {
			loopAssigned[string(v.(node.Name))] = true
		}
		m0 := st.M.clone()
		if !st.top {
			st.Y = union(st.Y, loopAssigned)
		}
		for _, it := range t.Iterators.Elems {
			a.visit(it, st)
		}
		if !st.top {
			for _, v := range t.VarRefs.Elems {
				nm := string(v.(node.Name))
				st.S[nm], st.M[nm] = true, true
			}
		}
		a.visit(t.Body, st)
		st.M = m0
	case node.Return:
		a.visit(t.Target, st)
	case node.Yield:
		a.visit(t.Target, st)
	default:
		panic("refsem: domain analysis of unknown node")
	}
}

// allAssigned is filled lazily by the function visit: the names assigned anywhere in the current function.
func (st *duState) allAssigned() set {
	if st.all == nil {
		return set{}
	}
	return st.all
}
