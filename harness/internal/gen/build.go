// Package gen holds tree constructors and the bounded-exhaustive enumerators
// (products of finite alphabets, size-bounded grammar closures, sequences).
package gen

import (
	"github.com/paulsonkoly/calc/types/node"

	"vharness/internal/ast"
)

// T is a syntax tree.
type T = node.Type

// Constructors (shapes exactly as the parser builds them).
func I(i int) T               { return node.Int(i) }
func F(f float64) T           { return node.Float(f) }
func B(b bool) T              { return node.Bool(b) }
func S(s string) T            { return node.String(s) }
func N(s string) T            { return node.Name(s) }
func L(e ...T) T              { return node.List{Elems: append([]T{}, e...)} }
func Bin(op string, l, r T) T { return node.BinOp{Op: op, Left: l, Right: r} }
func Un(op string, x T) T     { return node.UnOp{Op: op, Target: x} }
func Ix(a, i T) T             { return node.IndexAt{Ary: a, At: i} }
func Ix2(a, i, j T) T         { return node.IndexFromTo{Ary: a, From: i, To: j} }
func Call(f string, args ...T) T {
	return node.Call{Name: node.Name(f), Arguments: node.List{Elems: append([]T{}, args...)}}
}
func Fn(params []string, body T) T {
	ps := make([]T, len(params))
	for i, p := range params {
		ps[i] = node.Name(p)
	}
	return node.Function{Parameters: node.List{Elems: ps}, Body: body}
}
func Asg(v string, e T) T { return node.Assign{VarRef: node.Name(v), Value: e} }
func If(c, t T) T         { return node.If{Condition: c, TrueCase: t} }
func IfE(c, t, e T) T     { return node.IfElse{Condition: c, TrueCase: t, FalseCase: e} }
func Wh(c, b T) T         { return node.While{Condition: c, Body: b} }
func Ret(e T) T           { return node.Return{Target: e} }
func Yld(e T) T           { return node.Yield{Target: e} }
func Blk(s ...T) T        { return ast.Blk(s...) }
func For(v string, it, body T) T {
	return node.For{VarRefs: node.List{Elems: []T{node.Name(v)}}, Iterators: node.List{Elems: []T{it}}, Body: body}
}
func ForN(vs []string, its []T, body T) T {
	vr := make([]T, len(vs))
	for i, v := range vs {
		vr[i] = node.Name(v)
	}
	return node.For{VarRefs: node.List{Elems: vr}, Iterators: node.List{Elems: append([]T{}, its...)}, Body: body}
}

// P is the empty parameter list.
var P = []string{}

// Ps builds a parameter list.
func Ps(p ...string) []string { return p }

// Product enumerates the cartesian product of dimensions dims (each index in
// [0,dims[i])) in lexicographic order; f may return false to stop.
func Product(dims []int, f func(ix []int) bool) {
	for _, d := range dims {
		if d == 0 {
			return
		}
	}
	ix := make([]int, len(dims))
	for {
		if !f(ix) {
			return
		}
		k := len(dims) - 1
		for k >= 0 {
			ix[k]++
			if ix[k] < dims[k] {
				break
			}
			ix[k] = 0
			k--
		}
		if k < 0 {
			return
		}
	}
}

// Seqs enumerates all sequences over n symbols of length lo..hi, shortest first.
func Seqs(n, lo, hi int, f func(seq []int) bool) {
	for l := lo; l <= hi; l++ {
		dims := make([]int, l)
		for i := range dims {
			dims[i] = n
		}
		if l == 0 {
			if !f([]int{}) {
				return
			}
			continue
		}
		stop := false
		Product(dims, func(ix []int) bool {
			if !f(ix) {
				stop = true
				return false
			}
			return true
		})
		if stop {
			return
		}
	}
}

// Texts prints statements as session texts.
func Texts(stmts ...T) []string {
	r := make([]string, len(stmts))
	for i, s := range stmts {
		r[i] = ast.Stmt(s, ast.Plain)
	}
	return r
}
