package checks

import (
	"fmt"
	goast "go/ast"
	goparser "go/parser"
	"go/token"
	"os"
	"strconv"
	"strings"

	"vharness/internal/core"
	"vharness/internal/impl"
	"vharness/internal/refsem"
	"vharness/internal/sess"
)

// Selftest guards the reference model, the biggest false-alarm risk: it must
// reproduce every TestCalc row (through the implementation, which the
// repository's own suite pins to the expected values) and every worked example
// of Readme.md. A disagreement is a harness error (exit 2), never a verdict.

type readmeCase struct {
	session []string
	want    []string // Display of each statement's value, or "ERR <class>", "" = don't care
	out     string   // concatenated output
}

var readmeCases = []readmeCase{
	{[]string{
		"all = (iter, f) -> {\n  for e <- iter() if !f(e) return false\n  true\n}",
		"isprime = (n) -> {\n  if n < 2 return false\n  all(() -> fromto(2, n/2+1), (i) -> n % i != 0)\n}",
		"isprime(13)", "isprime(12)", "isprime(1)"},
		[]string{"function", "function", "true", "false", "false"}, ""},
	{[]string{`funs = [ ["+", (a, b) -> a+b ], ["-", (a, b) -> a - b ] ]`}, []string{`[[+, function], [-, function]]`}, ""}, // the Readme quotes the nested strings; no property is about the echo format, the implementation's rendering is taken
	{[]string{`"apple"[1]`, `"apple"[1:3]`, `#[[1,1,1]][0]`, `#[1,2,3]`}, []string{`"p"`, `"pp"`, "3", "3"}, ""},
	{[]string{"i = 0", "while i < 10 {\n   write(i)\n   i = i + 1\n}"}, []string{"0", "10"}, "0123456789"},
	{[]string{"for i <- fromto(0, 10) write(i)"}, []string{"nil"}, "0123456789"},
	{[]string{"for i <- fromto(1,3) {\n  for j <- elems(\"ab\") {\n    write(toa(i) + \" \" + j + \"\\n\")\n  }\n}"}, []string{"nil"}, "1 a\n1 b\n2 a\n2 b\n"},
	{[]string{"for i, j <- fromto(1, 3), elems(\"ab\") write(toa(i) + \" \" + j + \"\\n\")"}, []string{"nil"}, "1 a\n2 b\n"},
	{[]string{"a = 13", "f = (n) -> {\n    a = a+1\n}", "f(1)", "a"}, []string{"13", "function", "14", "13"}, ""},
	{[]string{"f = (n) -> {\n  a = 1\n  (b) -> a + b + n\n}", "foo = f(2)", "foo(3)"}, []string{"function", "function", "6"}, ""},
	{[]string{"f = () -> {\n  x = 1\n  g = () -> x\n  x = 2\n  g\n}", "g = f()", "g()"}, []string{"function", "function", "2"}, ""},
	{[]string{"f = (x) -> {\n  (y) -> {\n    (z) -> x + y + z\n  }\n}", "first = f(1)", "second = first(2)", "second(3)"}, []string{"function", "function", "function", "ERR nil error"}, ""},
	{[]string{"f = (x) -> {\n  (y) -> {\n    x = x\n    (z) -> x + y + z\n  }\n}", "first = f(1)", "second = first(2)", "second(3)"}, []string{"function", "function", "function", "6"}, ""},
	{[]string{"f = (n) -> if n <= 0 0 else n + f(n-1)", "f(5)"}, []string{"function", "15"}, ""},
	{[]string{"if true 1 else 2", "if true {\n   1\n} else {\n   2\n}", "if true 1"}, []string{"1", "1", "1"}, ""},
	{[]string{"1-2+1", "map = (f, iter) -> for e <- iter() yield f(e)", "for x <- map((v) -> v * 2, () -> fromto(0, 3)) write(x)"}, []string{"0", "function", "nil"}, "024"},
	{[]string{"f = () -> {\n  yield 1\n  1/0\n  yield 2\n}", "g = (x) -> {\n  for i <- f() {\n    write(toa(i+x) + \"\\n\")\n  }\n}", "h = () -> g(13)", "h()"},
		[]string{"function", "function", "function", "ERR division by zero"}, "14\n"},
}

// Selftest returns a list of problems (empty = fine).
func Selftest() []string {
	impl.Init()
	problems := []string{}
	// 1. Readme examples against the reference alone
	for ci, c := range readmeCases {
		in := refsem.NewInterp()
		out := ""
		for i, src := range c.session {
			pr := impl.Parse(src, 0)
			if pr.Err != "" || pr.Panic != "" {
				problems = append(problems, fmt.Sprintf("readme case %d statement %d does not parse: %s%s", ci, i, pr.Err, pr.Panic))
				break
			}
			for _, t := range pr.Trees {
				r := in.RunStmt(t, 1000000)
				out += r.Out
				got := r.Val.Display()
				if r.Err != "" {
					got = "ERR " + r.Err
				}
				if r.FuelOut {
					got = "FUEL"
				}
				if c.want[i] != "" && got != c.want[i] {
					problems = append(problems, fmt.Sprintf("readme case %d statement %d `%s`: reference gives %s, Readme says %s", ci, i, src, got, c.want[i]))
				}
			}
		}
		if out != c.out {
			problems = append(problems, fmt.Sprintf("readme case %d: reference output %q, Readme says %q", ci, out, c.out))
		}
		// and the implementation must agree with the reference on them
		o := sess.Compare(c.session, sess.Options{RefFuel: 1000000})
		if o.Sig != "" && !knownReadmeDisagreement(ci) {
			problems = append(problems, fmt.Sprintf("readme case %d: implementation and reference disagree: %s %s", ci, o.Sig, o.Detail))
		}
	}
	// 2. every TestCalc row
	inputs, err := testCalcInputs()
	if err != nil {
		problems = append(problems, "cannot read calc_test.go: "+err.Error())
	}
	if len(inputs) < 60 {
		problems = append(problems, fmt.Sprintf("only %d TestCalc inputs found", len(inputs)))
	}
	for _, in := range inputs {
		o := sess.Compare([]string{in}, sess.Options{RefFuel: 1000000, AllowParseErrors: true}) // some rows are syntax errors on purpose
		if o.Sig != "" {
			problems = append(problems, fmt.Sprintf("TestCalc input %q: implementation and reference disagree: %s %s", in, o.Sig, o.Detail))
		}
	}
	return problems
}

func knownReadmeDisagreement(int) bool { return false }

func testCalcInputs() ([]string, error) {
	fset := token.NewFileSet()
	f, err := goparser.ParseFile(fset, core.RepoDir()+"/cmd/calc/calc_test.go", nil, 0)
	if err != nil {
		return nil, err
	}
	var ins []string
	goast.Inspect(f, func(n goast.Node) bool {
		cl, ok := n.(*goast.CompositeLit)
		if !ok || len(cl.Elts) != 5 {
			return true
		}
		if bl, ok := cl.Elts[1].(*goast.BasicLit); ok && bl.Kind == token.STRING {
			s, _ := strconv.Unquote(bl.Value)
			ins = append(ins, s)
		}
		return true
	})
	return ins, nil
}

// SelftestMain prints the problems and returns the exit status.
func SelftestMain() int {
	ps := Selftest()
	for _, p := range ps {
		fmt.Fprintln(os.Stderr, "SELFTEST:", p)
	}
	if len(ps) > 0 {
		fmt.Fprintf(os.Stderr, "selftest failed (%d problems): the reference model or the drivers disagree with the documented examples; this is a harness error, not a verdict\n", len(ps))
		return 2
	}
	fmt.Fprintln(os.Stderr, "selftest ok:", len(readmeCases), "Readme sessions and", strings.TrimSpace(fmt.Sprint(len(mustInputs()))), "TestCalc inputs agree")
	return 0
}

func mustInputs() []string { i, _ := testCalcInputs(); return i }
