package checks

import (
	"encoding/json"
	"fmt"
	"strings"

	"vharness/internal/core"
	"vharness/internal/impl"
	"vharness/internal/sess"
)

// C04: lexical scoping and isolation — a call cannot disturb its caller.
//
// Programs are written as text from a product of scope-skeleton dimensions;
// every write stores a unique tag, so a read identifies the binding it hit.

type c04Dims struct {
	GlobalX bool   // a global x exists
	Pad     int    // number of other locals of the definer declared before x
	DefX    string // none | param | local | forvar
	Inner   string // shape of the inner function
	Upd     string // none | assign | grow-assign | loop-assign
	Use     string // call | pass | return | return-array | through-id | return-nested
	Churn   string // for escaped functions: none | deep | loop | other-calls
}

func (d c04Dims) String() string {
	return fmt.Sprintf("global=%v pad=%d def=%s inner=%s upd=%s use=%s churn=%s", d.GlobalX, d.Pad, d.DefX, d.Inner, d.Upd, d.Use, d.Churn)
}

var c04Inners = map[string]struct{ lit, arg string }{
	"read":            {"() -> x", ""},
	"read-own-local":  {"() -> {\n    y = \"gy\"\n    [x, y]\n  }", ""},
	"param-shadows":   {"(x) -> x", "\"ax\""},
	"assign-shadows":  {"() -> {\n    x = \"ix\"\n    x\n  }", ""},
	"two-levels":      {"() -> {\n    h = () -> x\n    h()\n  }", ""},
	"two-levels-copy": {"() -> {\n    x = x\n    h = () -> x\n    h()\n  }", ""},
	"disturbs":        {"() -> {\n    x = \"dx\"\n    z = \"dz\"\n    pz = \"dpz\"\n    \"ret\"\n  }", ""},
	"assigns-param":   {"(p) -> {\n    p = \"dp\"\n    p\n  }", "x"},
	"reads-other":     {"() -> [x, w]", ""},
	"loop-var-read":   {"() -> {\n    r = []\n    for e <- elems([\"e1\", \"e2\"]) r = r + [[e, x]]\n    r\n  }", ""},
	"for-x-inside":    {"() -> {\n    for x <- elems([\"lx\"]) t = x\n    x\n  }", ""},
}

var c04InnerOrder = []string{"read", "read-own-local", "param-shadows", "assign-shadows", "two-levels", "two-levels-copy", "disturbs", "assigns-param", "reads-other", "loop-var-read", "for-x-inside"}

// c04Program writes the session for one point of the product.
func c04Program(d c04Dims) []string {
	st := []string{
		"deep = (n) -> if n <= 0 0 else 1 + deep(n - 1)",
		"deepl = (n) -> {\n  la = n\n  lb = la\n  if n <= 0 0 else 1 + deepl(n - 1)\n}",
		"wide = (n) -> {\n" + wideLocals(140) + "  n\n}",
		"ap = (fn) -> fn()",
		"apx = (fn, v) -> fn(v)",
		"id = (v) -> v",
		"w = \"gw\"",
		"z = \"gz\"",
	}
	if d.GlobalX {
		st = append(st, "x = \"gx\"")
	}
	in := c04Inners[d.Inner]
	var b strings.Builder
	params := "pz"
	if d.DefX == "param" {
		params = "pz, x"
	}
	b.WriteString("f = (" + params + ") -> {\n")
	for i := 0; i < d.Pad; i++ {
		fmt.Fprintf(&b, "  q%s = %d\n", letters(i)[1:], i)
	}
	switch d.DefX {
	case "local":
		b.WriteString("  x = \"fx\"\n")
	case "forvar":
		b.WriteString("  for x <- elems([\"vx\"]) t = 1\n")
	}
	b.WriteString("  w = \"fw\"\n")
	b.WriteString("  g = " + in.lit + "\n")
	switch d.Upd {
	case "assign":
		b.WriteString("  x = \"fx2\"\n")
	case "grow-assign":
		b.WriteString("  t = deep(150)\n  x = \"fx2\"\n")
	case "grow-locals-assign":
		b.WriteString("  t = deepl(60)\n  x = \"fx2\"\n")
	case "grow-wide-assign":
		b.WriteString("  t = wide(1)\n  x = \"fx2\"\n")
	case "loop-assign":
		b.WriteString("  for i <- fromto(0, 2) x = \"fx\" + toa(i)\n")
	}
	callG := "g(" + in.arg + ")"
	switch d.Use {
	case "call":
		b.WriteString("  before = [w, z, pz]\n  r = " + callG + "\n  [r, w, z, pz, before]\n")
	case "pass":
		if in.arg == "" {
			b.WriteString("  r = ap(g)\n")
		} else {
			b.WriteString("  r = apx(g, " + in.arg + ")\n")
		}
		b.WriteString("  [r, w, z, pz]\n")
	case "through-id":
		b.WriteString("  k = id(g)\n  w = \"fw3\"\n  [k(" + in.arg + "), w]\n")
	case "return":
		b.WriteString("  g\n")
	case "return-array":
		b.WriteString("  [g, \"tag\"]\n")
	case "return-nested":
		b.WriteString("  [[g]]\n")
	}
	b.WriteString("}")
	st = append(st, b.String())
	args := "\"apz\""
	if d.DefX == "param" {
		args = "\"apz\", \"px\""
	}
	globalsProbe := "[w, z]"
	if d.GlobalX {
		globalsProbe = "[w, z, x]"
	}
	st = append(st, globalsProbe)
	switch d.Use {
	case "call", "pass", "through-id":
		st = append(st, "f("+args+")")
	default:
		st = append(st, "k = f("+args+")")
		switch d.Churn {
		case "deep":
			st = append(st, "deep(120)")
		case "loop":
			st = append(st, "for i <- fromto(0, 40) t = [i, i, i]")
		case "other-calls":
			st = append(st, "kk = f("+strings.ReplaceAll(args, "px", "px-other")+")", "deep(30)")
		}
		arg := in.arg
		if arg == "x" {
			arg = "\"topx\""
		}
		switch d.Use {
		case "return":
			st = append(st, "k("+arg+")")
		case "return-array":
			st = append(st, "kq = k[0]", "kq("+arg+")")
		case "return-nested":
			st = append(st, "kq = k[0][0]", "kq("+arg+")")
		}
	}
	st = append(st, globalsProbe)
	return st
}

var c04Opt = sess.Options{}

// c04IterClosures: a function literal written directly in the iterator expression of a for statement is a closure of
// the function that contains the statement, like one written a line earlier: it shares that function's variables
// until the function returns and keeps their last values afterwards (Readme, "Closure variables are shared with the
// defining function until the defining function returns"). Each item gives the program with the literal inline and
// the documented answer; the same program with the literal bound to a variable before the loop is run as a control.
type c04IterItem struct {
	Name    string
	Inline  []string
	Control []string
	Want    string
}

func c04IterItems() []c04IterItem {
	mk := func(name, head, loopInline, loopControl, tail, call, want string) c04IterItem {
		body := func(pre, loop string) []string {
			st := []string{"twice = (f) -> {\n  yield f\n  yield f\n}", "def = () -> {\n  x = 1\n" + head + pre + loop + tail + "}"}
			return append(st, strings.Split(call, " ; ")...)
		}
		return c04IterItem{name, body("", loopInline), body("  c = () -> x\n", loopControl), want}
	}
	return []c04IterItem{
		mk("escaped-through-elems", "  k = 0\n", "  for g <- elems([() -> x]) k = g\n", "  for g <- elems([c]) k = g\n", "  x = 5\n  k\n", "h = def() ; h()", "i:5"),
		mk("escaped-through-own-generator", "  k = 0\n", "  for g <- twice(() -> x) k = g\n", "  for g <- twice(c) k = g\n", "  x = 5\n  k\n", "h = def() ; h()", "i:5"),
		// names are resolved by the order of the text: a read that stands before the function's first assignment of the
		// name is compiled as an outer read for good, although by the time it runs the activation has its own variable
		// (both the lexical and the dynamic reading of the lookup rule give the documented answers below)
		{"textorder-read-in-loop-after-own-assignment",
			[]string{"x = 10", "def = () -> {\n  i = 0\n  y = 0\n  while i < 2 {\n    if i == 1 y = x\n    x = 5\n    i = i + 1\n  }\n  y\n}", "def()"},
			[]string{"x = 10", "def = () -> {\n  x = 0\n  i = 0\n  y = 0\n  while i < 2 {\n    if i == 1 y = x\n    x = 5\n    i = i + 1\n  }\n  y\n}", "def()"}, "i:5"},
		{"textorder-closure-written-before-the-assignment",
			[]string{"x = 10", "def = () -> {\n  h = () -> x\n  x = 5\n  h()\n}", "def()"},
			[]string{"x = 10", "def = () -> {\n  x = 0\n  h = () -> x\n  x = 5\n  h()\n}", "def()"}, "i:5"},
		{"textorder-local-recursive-function",
			[]string{"def = () -> {\n  k = (n) -> if n <= 0 0 else 1 + k(n - 1)\n  k(3)\n}", "def()"},
			[]string{"def = () -> {\n  k = 0\n  k = (n) -> if n <= 0 0 else 1 + k(n - 1)\n  k(3)\n}", "def()"}, "i:3"},
		mk("called-by-the-definer-after-an-update", "  r = 0\n", "  for g <- elems([() -> x]) {\n    x = 2\n    r = g()\n  }\n", "  for g <- elems([c]) {\n    x = 2\n    r = g()\n  }\n", "  r\n", "def()", "i:2"),
	}
}

func c04IterJudge(name string) (sig, detail string) {
	for _, it := range c04IterItems() {
		if it.Name != name {
			continue
		}
		run := func(stmts []string) (string, string) {
			s := impl.NewSession()
			last := ""
			for _, src := range stmts {
				pr := impl.ParseCached(src)
				if pr.Err != "" || len(pr.Trees) != 1 {
					return "", "generated statement does not parse: " + src
				}
				r := s.RunTree(pr.Trees[0], 200000)
				if r.Panic != "" || r.FuelOut {
					return "", "host fault: " + r.Panic
				}
				if r.Err != "" {
					last = "ERR " + r.Err
				} else {
					last = r.Canon
				}
			}
			return last, ""
		}
		ctl, herr := run(it.Control)
		if herr != "" {
			return "harness:iter-closure-control", herr
		}
		if ctl != it.Want {
			return "closure-before-loop-differs-from-documented", fmt.Sprintf("%s: with the function literal bound before the loop the program gives %s, documented %s", it.Name, ctl, it.Want)
		}
		got, herr := run(it.Inline)
		if herr != "" {
			return "harness:iter-closure", herr
		}
		if got != it.Want && strings.HasPrefix(it.Name, "textorder-") {
			return "name-resolved-by-text-order", fmt.Sprintf("%s: program %q gives %s; the documented lookup order (own variable, else the enclosing function's, else the global) gives %s, and so does the same program with a dummy assignment of the name at the top of the function", it.Name, it.Inline[len(it.Inline)-2], got, it.Want)
		}
		if got != it.Want {
			return "closure-in-iterator-expression-detached", fmt.Sprintf("%s: program %q gives %s; the documented answer, and what the same literal bound one statement before the loop gives, is %s", it.Name, it.Inline[1], got, it.Want)
		}
		return "", ""
	}
	return "harness:bad-payload", "unknown item " + name
}

func init() {
	core.Register(&core.Check{
		ID:    "C04",
		Level: "exploration",
		Rule: "scope skeletons = the full product of: a global of the same name exists or not x the definer has 0 / 1 / 2 / 3 / 199 other locals before x x x is not defined in the definer / a parameter / a local / a for variable x 11 inner function shapes (plain read, own local, shadowing parameter, shadowing assignment, a second nesting level with and without the documented explicit copy, a body that assigns the caller's names, one that assigns its parameter, reads of other names, reads inside a loop, a for variable of the same name) x the captured variable is left alone / updated / updated after stack growth (by pushes, by frames with locals, by one wide frame) / updated in a loop after the inner function was created x the inner function is called, passed down, passed through another function, returned, returned inside an array, returned inside a nested array x (for escaped functions) stack churn by deep recursion / an allocating loop / further calls of the definer; plus recursive definers at depth 3/50/200; plus three directed programs in which the inner function is written directly in the iterator expression of a for statement (escaping through elems, through a generator of the program, called by the definer after an update), each with the same literal bound one statement before the loop as a control; plus three directed programs in which a name is read before the text of the function assigns it but after the activation did (second loop iteration, closure written before the assignment, local recursive function), each with a dummy assignment at the top of the function as a control. Every write stores a unique tag. " +
			"Oracle: every value read equals the reference model's by-name resolution (own, else one-level captured, else global); globals, the caller's variables and its argument are rendered before and after every call and must be unchanged; escaped functions must keep reading the tags their captured variables had when the definer returned. distinct = distinct program; non-trivial = programs inside the described domain in which the inner function ran",
		Assumptions: []string{"reference model refsem (by-name scoping with one retained level)", "programs whose reads resolve differently under the lexical and the dynamic rule (D-use-before-def) are skipped and counted"},
		Exec: func(payload string) (string, string) {
			if strings.HasPrefix(payload, `{"fresh"`) {
				impl.Init()
				var it struct{ Fresh c04Fresh }
				if err := json.Unmarshal([]byte(payload), &it); err != nil {
					return "harness:bad-payload", err.Error()
				}
				return c04FreshJudge(it.Fresh)
			}
			if strings.HasPrefix(payload, `{"iterclosure"`) {
				impl.Init()
				var it struct{ Iterclosure string }
				if err := json.Unmarshal([]byte(payload), &it); err != nil {
					return "harness:bad-payload", err.Error()
				}
				return c04IterJudge(it.Iterclosure)
			}
			return sessExec(c04Opt)(payload)
		},
		Shrink: func(payload, sig string) string {
			if strings.HasPrefix(payload, `{"fresh"`) || strings.HasPrefix(payload, `{"iterclosure"`) {
				return payload
			}
			return sessShrink(c04Opt)(payload, sig)
		},
		Run: c04Run,
	})
}

func c04Run(w *core.W) {
	impl.Init()
	pads := []int{0, 1, 2, 3, 199}
	emit := func(stmts []string) bool {
		runSession(w, stmts, c04Opt)
		return !w.Expired("time budget reached")
	}
	w.Family("scope-skeleton-product")
	for _, gx := range []bool{true, false} {
		for _, pad := range pads {
			for _, def := range []string{"none", "param", "local", "forvar"} {
				for _, inner := range c04InnerOrder {
					for _, upd := range []string{"none", "assign", "grow-assign", "grow-locals-assign", "grow-wide-assign", "loop-assign"} {
						if def == "none" && upd != "none" && !w.Thorough() {
							continue // assigning x after the inner function was created makes reads ambiguous: thorough only (counted as skipped)
						}
						for _, use := range []string{"call", "pass", "through-id", "return", "return-array", "return-nested"} {
							churns := []string{"none"}
							if strings.HasPrefix(use, "return") {
								churns = []string{"none", "deep", "loop", "other-calls"}
							}
							for _, ch := range churns {
								d := c04Dims{gx, pad, def, inner, upd, use, ch}
								if !emit(c04Program(d)) {
									return
								}
							}
						}
					}
				}
			}
		}
	}
	w.Family("closures-running-loops")
	for _, mk := range []string{
		"mkr = (n) -> () -> {\n  s = []\n  for i <- fromto(0, n) s = s + [i]\n  s\n}",
		"mkr = (n) -> () -> {\n  s = []\n  for e <- elems(n) s = s + [e]\n  s\n}",
		"mkr = (n) -> () -> for i <- fromto(0, #toa(n)) yield [i, n]",
	} {
		for _, args := range [][2]string{{"3", "5"}, {"\"abc\"", "\"de\""}} {
			if strings.Contains(mk, "fromto(0, n)") && strings.Contains(args[0], "\"") {
				continue
			}
			for _, use := range []string{"[ga(), gb()]", "[gb(), ga()]", "[ga(), gb(), ga()]", "{\n  r = []\n  for v <- ga() r = r + [v]\n  for v <- gb() r = r + [v]\n  r\n}", "{\n  r = []\n  for v, z <- gb(), ga() r = r + [[v, z]]\n  r\n}"} {
				st := []string{mk, "ga = mkr(" + args[0] + ")", "gb = mkr(" + args[1] + ")", "run = () -> " + use, "run()", use}
				if strings.Contains(use, "for v") != strings.Contains(mk, "yield") {
					continue
				}
				if !emit(st) {
					return
				}
			}
		}
	}
	// generators that are closures (they read a captured variable after every yield) consumed by a loop whose body calls
	// another closure, in a function, after 0..2 earlier loops of the same call made contexts available for recycling
	for _, warm := range []string{"", "  for i <- fromto(0, 1) 0\n", "  for i <- fromto(0, 1) 0\n  for i <- fromto(0, 2) for j <- fromto(0, 2) 0\n", "  for i <- fromto(0, 5) if i == 1 {\n    t = i\n  }\n"} {
		for _, loop := range []string{
			"  for v <- g() r = r + [h(v)]\n",
			"  for v, w <- g(), gb() r = r + [h(v) + hb(w)]\n",
			"  for v <- g() for w <- gb() r = r + [h(v) + hb(w)]\n",
			"  for v <- g() r = r + [v + hb(1)]\n",
		} {
			st := []string{
				"mk = (k) -> () -> {\n  yield k\n  yield k + 1\n  yield k + 2\n}",
				"add = (d) -> (v) -> v + d",
				"run = () -> {\n  g = mk(10)\n  gb = mk(20)\n  h = add(100)\n  hb = add(1000)\n" + warm + "  r = []\n" + loop + "  r\n}",
				"run()", "[run(), run()]",
			}
			if !emit(st) {
				return
			}
		}
	}
	// every activation starts with its own, empty variables: what an earlier call (or expression) left at the same
	// stack depth must not show through a variable this call did not assign. Differential on the real VM: the call
	// after a polluting statement against the same call in a fresh session; no tag of the polluter may appear.
	w.Family("fresh-variables-per-activation")
	for p := 0; p <= 3; p++ {
		for k := 1; k <= 4; k++ {
			for pol := range c04Polluters {
				for _, via := range []string{"direct", "nested", "loop", "generator"} {
					it := c04Fresh{p, k, pol, via}
					b, _ := json.Marshal(map[string]c04Fresh{"fresh": it})
					if !w.Mine(string(b)) {
						continue
					}
					w.NonTrivial()
					if sig, detail := c04FreshJudge(it); sig != "" {
						w.Fail(string(b), sig, detail)
					}
				}
			}
		}
	}
	// loop variables are ordinary variables of the function: a for statement with 1..3 variables, each of which is a
	// parameter, a local assigned before the loop, or a new name, followed by new locals assigned in the body and after
	// the loop. Every variable is tagged and read (loop variables inside the body only); none may share a cell.
	w.Family("for-variable-slots")
	{
		kinds := []string{"param", "local", "new"}
		its := []string{"elems([\"ia\", \"ib\"])", "elems([\"ja\", \"jb\"])", "elems([\"ka\", \"kb\"])"}
		for np := 0; np <= 2; np++ {
			for nl := 0; nl <= 2; nl++ {
				for nv := 1; nv <= 3; nv++ {
					n := 1
					for i := 0; i < nv; i++ {
						n *= 3
					}
					for code := 0; code < n; code++ {
						params := []string{"pa", "pb"}[:np]
						locals := []string{"la", "lb"}[:nl]
						vars, usedP, usedL, ok := []string{}, 0, 0, true
						c := code
						for i := 0; i < nv; i++ {
							switch kinds[c%3] {
							case "param":
								if usedP >= np {
									ok = false
								} else {
									vars = append(vars, params[usedP])
									usedP++
								}
							case "local":
								if usedL >= nl {
									ok = false
								} else {
									vars = append(vars, locals[usedL])
									usedL++
								}
							default:
								vars = append(vars, []string{"va", "vb", "vc"}[i])
							}
							c /= 3
						}
						if !ok {
							continue
						}
						for _, nested := range []bool{false, true} {
							var b strings.Builder
							b.WriteString("f = (" + strings.Join(params, ", ") + ") -> {\n  acc = []\n")
							for _, l := range locals {
								b.WriteString("  " + l + " = \"" + l + "\"\n")
							}
							b.WriteString("  for " + strings.Join(vars, ", ") + " <- " + strings.Join(its[:nv], ", ") + " {\n    ta = \"ta\"\n")
							if nested {
								b.WriteString("    for wa <- elems([\"wa\"]) {\n      tb = \"tb\"\n      acc = acc + [[wa, tb, " + strings.Join(vars, ", ") + "]]\n    }\n")
							}
							b.WriteString("    acc = acc + [[ta, " + strings.Join(vars, ", ") + "]]\n  }\n  tc = \"tc\"\n")
							b.WriteString("  acc + [[tc" + strings.Join(append([]string{""}, append(append([]string{}, params[usedP:]...), locals[usedL:]...)...), ", ") + "]]\n}")
							args := []string{"\"pa\"", "\"pb\""}[:np]
							call := "f(" + strings.Join(args, ", ") + ")"
							if !emit([]string{b.String(), call, "[" + call + ", " + call + "]"}) {
								return
							}
						}
					}
				}
			}
		}
	}
	// function literals written in an iterator expression, and names read before the text assigns them (directed; the
	// failing ones are listed in known_findings.json)
	w.Family("closures-in-iterator-expressions-and-text-order")
	for _, it := range c04IterItems() {
		b, _ := json.Marshal(map[string]string{"iterclosure": it.Name})
		if !w.Mine(string(b)) {
			continue
		}
		w.NonTrivial()
		if sig, detail := c04IterJudge(it.Name); sig != "" {
			w.Fail(string(b), sig, detail)
		}
	}
	// closures handed out by (nested) generators whose loop is abandoned, then unrelated loops and calls recycle the
	// abandoned contexts: the closure keeps reading the generator's variable as it was
	w.Family("closures-from-abandoned-generators")
	{
		inner := "inner = () -> {\n  v = 1\n  while v < 10 {\n    yield () -> v\n    v = v + 1\n  }\n}"
		gens := map[string][]string{
			"direct":   {inner, "src = inner"},
			"composed": {inner, "src = () -> for f <- inner() yield f"},
			"twice":    {inner, "mid = () -> for f <- inner() yield f", "src = () -> for f <- mid() yield f"},
			"zipped":   {inner, "src = () -> for f, i <- inner(), fromto(0, 9) yield f"},
			"helper":   {"each = (c) -> {\n  yield c\n  yield c\n}", "src = () -> {\n  lo = 1\n  v = 41\n  c = () -> v + lo\n  each(c)\n}"},
		}
		takes := map[string]string{
			"first":  "take = () -> {\n  for f <- src() return f\n}",
			"third":  "take = () -> {\n  n = 0\n  for f <- src() {\n    n = n + 1\n    if n == 3 return f\n  }\n}",
			"nested": "take = () -> {\n  for i <- fromto(0, 2) for f <- src() return f\n}",
		}
		churns := []string{
			"other = () -> {\n  s = 0\n  for a <- fromto(100, 103) for b <- fromto(200, 203) s = s + a + b\n  s\n}",
			"other = () -> {\n  s = 0\n  for a, b <- fromto(100, 103), fromto(200, 203) s = s + a + b\n  for c <- fromto(300, 303) s = s + c\n  s\n}",
			"other = () -> {\n  s = []\n  for f <- src() s = s + [f()]\n  s\n}",
			"other = () -> {\n  d = (n) -> if n <= 0 0 else 1 + d(n - 1)\n  d(150)\n}",
		}
		for _, gk := range []string{"direct", "composed", "twice", "zipped", "helper"} {
			for _, tk := range []string{"first", "third", "nested"} {
				for _, ch := range churns {
					st := append(append([]string{}, gens[gk]...), takes[tk], ch,
						"main = () -> {\n  g = take()\n  before = g()\n  other()\n  [before, g(), other(), g()]\n}", "main()", "k = take()", "[k(), other(), k()]", "k()")
					if !emit(st) {
						return
					}
				}
			}
		}
	}
	// the scope skeletons whose definer grows the stack, in a session whose first statement failed inside nested calls
	w.Family("scope-skeletons-after-a-failed-statement")
	for _, def := range []string{"param", "local"} {
		for _, inner := range c04InnerOrder {
			for _, upd := range []string{"grow-assign", "grow-locals-assign", "grow-wide-assign"} {
				for _, use := range []string{"call", "return", "return-array"} {
					for _, depth := range []int{1, 3} {
						d := c04Dims{true, 0, def, inner, upd, use, "deep"}
						if use == "call" {
							d.Churn = "none"
						}
						st := append([]string{"bad = (n) -> if n <= 0 1 / 0 else bad(n - 1) + 1", fmt.Sprintf("bad(%d)", depth)}, c04Program(d)...)
						if !emit(st) {
							return
						}
					}
				}
			}
		}
	}
	w.Family("recursive-definers")
	for _, depth := range []int{3, 50, 200} {
		for _, body := range []string{
			"f = (n) -> {\n  x = n\n  g = () -> x\n  if n > 0 r = f(n - 1) else r = []\n  r + [g()]\n}",
			"f = (n) -> {\n  x = n\n  g = () -> x\n  if n > 0 r = f(n - 1) else r = []\n  x = x + 1000\n  r + [g()]\n}",
			"f = (n) -> {\n  x = n\n  g = () -> x\n  if n > 0 r = f(n - 1) else r = []\n  [g] + r\n}",
			"f = (n, acc) -> {\n  x = n\n  if n > 0 f(n - 1, acc + [() -> x]) else acc\n}",
		} {
			st := []string{"x = \"gx\"", body}
			switch {
			case strings.Contains(body, "(n, acc)"):
				st = append(st, fmt.Sprintf("k = f(%d, [])", depth), "r = []", "for h <- elems(k) r = r + [h()]", "r")
			case strings.Contains(body, "[g] + r"):
				st = append(st, fmt.Sprintf("k = f(%d)", depth), "deep = (n) -> if n <= 0 0 else 1 + deep(n - 1)", "deep(100)", "r = []", "for h <- elems(k) r = r + [h()]", "r")
			default:
				st = append(st, fmt.Sprintf("f(%d)", depth))
			}
			st = append(st, "x")
			if !emit(st) {
				return
			}
		}
	}
}

func wideLocals(n int) string {
	var b strings.Builder
	prev := "n"
	for i := 0; i < n; i++ {
		v := "w" + letters(i)[1:]
		fmt.Fprintf(&b, "  %s = %s\n", v, prev)
		prev = v
	}
	return b.String()
}

// c04Fresh: a function with P parameters and K variables it assigns only when its last argument is true, called with
// false after polluter Pol, directly or from a nested call / loop body / generator.
type c04Fresh struct {
	P   int    `json:"p"`
	K   int    `json:"k"`
	Pol int    `json:"pol"`
	Via string `json:"via"`
}

var c04Polluters = []string{
	"SAME-TRUE", // the same function, assigning all its variables
	"OTHER",     // another function of the same arity with as many variables
	"[\"T1\", \"T2\", \"T3\", \"T4\", \"T5\", \"T6\", \"T7\", \"T8\", \"T9\"][0]",
	"wide(\"T1\")", // a function with 12 variables
	"1 / 0",        // a failing statement after pushing operands
	"[\"T1\", \"T2\", \"T3\", [\"T4\"][5]]",
}

func c04FreshJudge(it c04Fresh) (sig, detail string) {
	params, args, argsTrue := []string{}, []string{}, []string{}
	for i := 0; i < it.P; i++ {
		params = append(params, "p"+string(rune('a'+i)))
		args = append(args, fmt.Sprintf("\"A%d\"", i))
		argsTrue = append(argsTrue, fmt.Sprintf("\"T-arg%d\"", i))
	}
	params = append(params, "on")
	var f, o strings.Builder
	fmt.Fprintf(&f, "f = (%s) -> {\n  if on {\n", strings.Join(params, ", "))
	fmt.Fprintf(&o, "other = (%s) -> {\n", strings.Join(params, ", "))
	reads := []string{}
	for i := 0; i < it.K; i++ {
		fmt.Fprintf(&f, "    v%c = \"T-f%d\"\n", 'a'+i, i)
		fmt.Fprintf(&o, "  w%c = \"T-o%d\"\n", 'a'+i, i)
		reads = append(reads, "v"+string(rune('a'+i)))
	}
	fmt.Fprintf(&f, "  }\n  last = \"mine\"\n  [%s, last%s]\n}", strings.Join(reads, ", "), map[bool]string{true: ", " + strings.Join(params[:it.P], ", "), false: ""}[it.P > 0])
	fmt.Fprintf(&o, "  wa\n}")
	var wide strings.Builder
	wide.WriteString("wide = (t) -> {\n")
	for i := 0; i < 12; i++ {
		fmt.Fprintf(&wide, "  x%c = t\n", 'a'+i)
	}
	wide.WriteString("  xa\n}")
	callFalse := "f(" + strings.Join(append(append([]string{}, args...), "false"), ", ") + ")"
	callTrue := "f(" + strings.Join(append(append([]string{}, argsTrue...), "true"), ", ") + ")"
	pol := c04Polluters[it.Pol]
	switch pol {
	case "SAME-TRUE":
		pol = callTrue
	case "OTHER":
		pol = "other(" + strings.Join(append(append([]string{}, argsTrue...), "true"), ", ") + ")"
	}
	defs := []string{f.String(), o.String(), wide.String(), "nest = (d) -> if d <= 0 " + callFalse + " else nest(d - 1)", "gen = () -> {\n  yield " + callFalse + "\n  yield " + callFalse + "\n}"}
	var obs string
	switch it.Via {
	case "direct":
		obs = callFalse
	case "nested":
		obs = "nest(3)"
	case "loop":
		obs = "{\n  r = []\n  for q <- fromto(0, 2) r = r + [" + callFalse + "]\n  r\n}"
	default:
		obs = "{\n  r = []\n  for v <- gen() r = r + [v]\n  r\n}"
	}
	fresh := runImplStmts(append(append([]string{}, defs...), obs), 200000)
	after := runImplStmts(append(append(append([]string{}, defs...), pol), obs), 200000)
	if strings.HasPrefix(fresh, "HARNESS") || strings.HasPrefix(after, "HARNESS") {
		return "harness:generated-program-does-not-parse", fresh + " / " + after
	}
	if !strings.HasPrefix(fresh, "a:[") {
		return "harness:fresh-variable-program-does-not-run", fmt.Sprintf("%v: %s", defs, fresh)
	}
	if fresh != after || strings.Contains(after, "T-") || strings.Contains(after, "\"T") {
		return "stale-variable", fmt.Sprintf("function with %d parameters and %d variables it does not assign in this call, called (%s) as `%s`: in a fresh session the result is %s, after the statement `%s` it is %s", it.P, it.K, it.Via, callFalse, fresh, oneLineC04(pol), after)
	}
	return "", ""
}

func oneLineC04(s string) string { return strings.ReplaceAll(s, "\n", " ") }
