package sess

import (
	"github.com/paulsonkoly/calc/types/node"

	"vharness/internal/ast"
)

// Shrink minimises and canonicalises a failing session deterministically:
// statements are dropped, sub-trees are replaced by one of their children or
// by the literal 1, block statements and list elements are dropped, and
// variables are renamed in order of appearance — as long as pred (same
// failure signature) keeps holding.
func Shrink(stmts []string, pred func([]string) bool) []string {
	trees := []node.Type{}
	parsed := ParseAll(stmts)
	if parsed == nil {
		return stmts
	}
	for _, ts := range parsed {
		trees = append(trees, ts...)
	}
	budget := 800
	try := func(cand []node.Type) bool {
		if budget <= 0 {
			return false
		}
		txt, ok := printAll(cand)
		if !ok {
			return false
		}
		budget--
		return pred(txt)
	}
	if !try(trees) {
		return stmts // the re-printed session does not fail the same way: keep the original
	}
	for changed := true; changed && budget > 0; {
		changed = false
		// drop statements, last first
		for i := len(trees) - 1; i >= 0 && len(trees) > 1; i-- {
			cand := append(append([]node.Type{}, trees[:i]...), trees[i+1:]...)
			if try(cand) {
				trees = cand
				changed = true
			}
		}
		// simplify inside statements
		for i := range trees {
			for {
				better := false
				for _, c := range candidates(trees[i]) {
					if ast.Size(c) >= ast.Size(trees[i]) {
						continue
					}
					cand := append([]node.Type{}, trees...)
					cand[i] = c
					if try(cand) {
						trees = cand
						better, changed = true, true
						break
					}
				}
				if !better || budget <= 0 {
					break
				}
			}
		}
	}
	// canonical names
	if cand, ok := renamed(trees); ok && try(cand) {
		trees = cand
	}
	txt, _ := printAll(trees)
	return txt
}

func printAll(trees []node.Type) (txt []string, ok bool) {
	defer func() {
		if r := recover(); r != nil {
			ok = false
		}
	}()
	txt = make([]string, len(trees))
	for i, t := range trees {
		txt[i] = ast.Stmt(t, ast.Plain)
	}
	return txt, true
}

// candidates lists smaller variants of n (one edit each), simplest first.
func candidates(n node.Type) []node.Type {
	out := []node.Type{}
	var rec func(n node.Type, rebuild func(node.Type) node.Type)
	rec = func(n node.Type, rebuild func(node.Type) node.Type) {
		cs := ast.Children(n)
		// replace by the literal 1 (expressions only)
		if ast.IsExpr(n) && ast.Size(n) > 1 {
			out = append(out, rebuild(node.Int(1)))
		}
		// hoist a child
		for _, c := range cs {
			if ast.IsExpr(n) && !ast.IsExpr(c) {
				continue
			}
			out = append(out, rebuild(c))
		}
		// drop an element
		switch t := n.(type) {
		case node.Block:
			for i := range t.Body {
				rest := append(append([]node.Type{}, t.Body[:i]...), t.Body[i+1:]...)
				out = append(out, rebuild(ast.Blk(rest...)))
			}
		case node.List:
			for i := range t.Elems {
				rest := append(append([]node.Type{}, t.Elems[:i]...), t.Elems[i+1:]...)
				out = append(out, rebuild(node.List{Elems: rest}))
			}
		case node.IfElse:
			out = append(out, rebuild(node.If{Condition: t.Condition, TrueCase: t.TrueCase}))
		}
		for i, c := range cs {
			i := i
			rec(c, func(x node.Type) node.Type {
				ncs := append([]node.Type{}, cs...)
				ncs[i] = x
				return rebuild(ast.WithChildren(n, ncs))
			})
		}
	}
	rec(n, func(x node.Type) node.Type { return x })
	return out
}

var builtinNames = map[string]bool{"read": true, "write": true, "aton": true, "toa": true, "exit": true, "fromto": true, "elems": true, "indices": true}

func renamed(trees []node.Type) ([]node.Type, bool) {
	order := []string{}
	seen := map[string]bool{}
	for _, t := range trees {
		ast.Walk(t, func(n node.Type) {
			add := func(x node.Type) {
				if nm, ok := x.(node.Name); ok && !seen[string(nm)] && !builtinNames[string(nm)] {
					seen[string(nm)] = true
					order = append(order, string(nm))
				}
			}
			switch x := n.(type) {
			case node.Name:
				add(x)
			case node.Assign:
				add(x.VarRef)
			case node.Call:
				add(x.Name)
			case node.Function:
				for _, p := range x.Parameters.Elems {
					add(p)
				}
			case node.For:
				for _, p := range x.VarRefs.Elems {
					add(p)
				}
			}
		})
	}
	pool := []string{"a", "b", "c", "d", "e", "g", "h", "k", "m", "n", "p", "q", "r", "s", "t", "u", "v", "w", "x", "y", "z"}
	if len(order) > len(pool) {
		return nil, false
	}
	m := map[string]string{}
	same := true
	for i, nm := range order {
		m[nm] = pool[i]
		if nm != pool[i] {
			same = false
		}
	}
	if same {
		return nil, false
	}
	out := make([]node.Type, len(trees))
	for i, t := range trees {
		out[i] = ast.Rename(t, m)
	}
	return out, true
}
