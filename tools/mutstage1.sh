#!/bin/sh
# Stage 1 of the mutation experiment: which mutants (every STEP-th mutation point of the anchored files) still build and
# pass the repository's own test suite. Survivors go to /verif/mutation/survivors.tsv. Scratch worktree under /tmp.
STEP=${STEP:-3}
export GOFLAGS=-mod=mod GOPROXY=off GOSUMDB=off GOTOOLCHAIN=local
wt=/tmp/mutwt
rm -rf $wt; git -C /repo worktree prune; git -C /repo worktree add -q --detach $wt HEAD || exit 2
(cd /verif/tools/mutate && go build -o /tmp/mutate .) || exit 2
out=/verif/mutation/survivors.tsv
: > $out
: > /verif/mutation/stage1.log
for f in memory/memory.go vm/vm.go types/node/bytecoder.go types/node/strewriter.go types/value/value.go types/bytecode/bytecode.go lexer/lexer.go lexer/states.go lexer/transaction.go combinator/combinator.go parser/parser.go parser/token_wrapper.go types/node/repl.go builtin/builtin.go types/node/hascaller.go types/node/bc/bc.go; do
  n=$(/tmp/mutate -list /repo/$f | wc -l)
  k=0
  while [ $k -lt $n ]; do
    info=$(/tmp/mutate -list /repo/$f | sed -n "$((k+1))p")
    /tmp/mutate -k $k -o $wt/$f /repo/$f
    if (cd $wt && go build ./... && go build -tags verif ./...) >/dev/null 2>&1; then
      if (cd $wt && timeout 300 go test -count=1 ./... ) >/dev/null 2>&1; then
        printf '%s\t%s\n' "$f" "$info" >> $out
        echo "SURVIVES $f $info" >> /verif/mutation/stage1.log
      else
        echo "killed-by-tests $f $info" >> /verif/mutation/stage1.log
      fi
    else
      echo "does-not-build $f $info" >> /verif/mutation/stage1.log
    fi
    git -C $wt checkout -q -- $f
    k=$((k+STEP))
  done
done
git -C /repo worktree remove --force $wt
echo ALLDONE >> /verif/mutation/stage1.log
