// Package ast prints calc syntax trees (values of the exported node types, as
// the parser is documented to build them) as source text, using only the
// documented rules of Readme.md: five left-associative binary levels, unary
// operators over index-level terms, indexing tightest, one-line bodies or
// `{`-newline-…-newline-`}` bodies, else on the line of the closing brace.
package ast

import (
	"fmt"
	"strconv"
	"strings"

	"github.com/paulsonkoly/calc/types/node"
)

// Style selects among equivalent writings of one tree.
type Style struct {
	FullParens bool // parenthesise every compound operand
	AllBraces  bool // brace every body
	Redundant  bool // wrap every expression statement / condition / argument in one extra pair of parentheses
	Indent     string
}

// Level of a binary operator (documented table), -1 if unknown.
func Level(op string) int {
	switch op {
	case "&&", "||":
		return 0
	case "<", ">", "<=", ">=", "==", "!=":
		return 1
	case "&", "|":
		return 2
	case "+", "-":
		return 3
	case "*", "/", "%", "<<", ">>":
		return 4
	}
	return -1
}

// BinaryOps lists the 15 binary operators.
var BinaryOps = []string{"&&", "||", "<", ">", "<=", ">=", "==", "!=", "&", "|", "+", "-", "*", "/", "%", "<<", ">>"}

// UnaryOps lists the 4 unary operators.
var UnaryOps = []string{"-", "#", "!", "~"}

const (
	lvUnary = 5
	lvIndex = 6
	lvAtom  = 7
)

// Expr prints an expression.
func Expr(n node.Type, st Style) string { return expr(n, -1, st) }

// exprLevel is the syntactic level an expression node is produced at.
func exprLevel(n node.Type) int {
	switch t := n.(type) {
	case node.BinOp:
		return Level(t.Op)
	case node.UnOp:
		return lvUnary
	case node.IndexAt, node.IndexFromTo:
		return lvIndex
	case node.Function:
		return -2 // swallows everything to its right: always parenthesised as an operand
	}
	return lvAtom
}

// expr prints n so that it can stand where a term of level min is required.
func expr(n node.Type, min int, st Style) string {
	s := rawExpr(n, st)
	lv := exprLevel(n)
	need := lv < min
	if lv == -2 && min >= 0 {
		need = true
	}
	if st.FullParens && lv != lvAtom && min >= 0 {
		need = true
	}
	if need {
		return "(" + s + ")"
	}
	return s
}

func floatText(f float64) string {
	s := strconv.FormatFloat(f, 'f', -1, 64)
	if !strings.Contains(s, ".") {
		s += ".0"
	}
	return s
}

// StringText writes a string literal (only the two documented escapes).
func StringText(s string) string {
	return "\"" + strings.ReplaceAll(s, "\"", "\\\"") + "\""
}

func rawExpr(n node.Type, st Style) string {
	switch t := n.(type) {
	case node.Int:
		if t < 0 {
			panic("ast: negative integer literal cannot be written")
		}
		return strconv.Itoa(int(t))
	case node.Float:
		return floatText(float64(t))
	case node.Bool:
		return strconv.FormatBool(bool(t))
	case node.String:
		return StringText(string(t))
	case node.Name:
		return string(t)
	case node.List:
		parts := make([]string, len(t.Elems))
		for i, e := range t.Elems {
			parts[i] = argExpr(e, st)
		}
		return "[" + strings.Join(parts, ", ") + "]"
	case node.BinOp:
		lv := Level(t.Op)
		if lv < 0 {
			panic("ast: unknown operator " + t.Op)
		}
		return expr(t.Left, lv, st) + " " + t.Op + " " + expr(t.Right, lv+1, st)
	case node.UnOp:
		return t.Op + expr(t.Target, lvIndex, st)
	case node.IndexAt:
		return expr(t.Ary, lvIndex, st) + "[" + argExpr(t.At, st) + "]"
	case node.IndexFromTo:
		return expr(t.Ary, lvIndex, st) + "[" + argExpr(t.From, st) + " : " + argExpr(t.To, st) + "]"
	case node.Call:
		parts := make([]string, len(t.Arguments.Elems))
		for i, e := range t.Arguments.Elems {
			parts[i] = argExpr(e, st)
		}
		return string(t.Name.(node.Name)) + "(" + strings.Join(parts, ", ") + ")"
	case node.Function:
		ps := make([]string, len(t.Parameters.Elems))
		for i, p := range t.Parameters.Elems {
			ps[i] = string(p.(node.Name))
		}
		return "(" + strings.Join(ps, ", ") + ") -> " + body(t.Body, st, false)
	}
	panic(fmt.Sprintf("ast: not an expression: %T", n))
}

func argExpr(n node.Type, st Style) string {
	s := expr(n, -1, st)
	if st.Redundant {
		return "(" + s + ")"
	}
	return s
}

// IsExpr reports whether the node is an expression form.
func IsExpr(n node.Type) bool {
	switch n.(type) {
	case node.Int, node.Float, node.Bool, node.String, node.Name, node.List, node.BinOp, node.UnOp,
		node.IndexAt, node.IndexFromTo, node.Call, node.Function:
		return true
	}
	return false
}

// Stmt prints one statement; a Block is printed in braces over several lines.
func Stmt(n node.Type, st Style) string {
	switch t := n.(type) {
	case node.Assign:
		return string(t.VarRef.(node.Name)) + " = " + argExpr(t.Value, st)
	case node.Return:
		return "return " + argExpr(t.Target, st)
	case node.Yield:
		return "yield " + argExpr(t.Target, st)
	case node.If:
		return "if " + argExpr(t.Condition, st) + " " + bodyAfterExpr(t.Condition, t.TrueCase, st, false)
	case node.IfElse:
		tc := bodyAfterExpr(t.Condition, t.TrueCase, st, true)
		return "if " + argExpr(t.Condition, st) + " " + tc + " else " + body(t.FalseCase, st, false)
	case node.While:
		return "while " + argExpr(t.Condition, st) + " " + bodyAfterExpr(t.Condition, t.Body, st, false)
	case node.For:
		vs := make([]string, len(t.VarRefs.Elems))
		for i, v := range t.VarRefs.Elems {
			vs[i] = string(v.(node.Name))
		}
		its := make([]string, len(t.Iterators.Elems))
		for i, e := range t.Iterators.Elems {
			its[i] = argExpr(e, st)
		}
		last := t.Iterators.Elems[len(t.Iterators.Elems)-1]
		return "for " + strings.Join(vs, ", ") + " <- " + strings.Join(its, ", ") + " " + bodyAfterExpr(last, t.Body, st, false)
	case node.Block:
		return braced(t.Body, st)
	}
	if IsExpr(n) {
		return argExpr(n, st)
	}
	panic(fmt.Sprintf("ast: cannot print %T", n))
}

func braced(stmts []node.Type, st Style) string {
	var b strings.Builder
	b.WriteString("{\n")
	for _, s := range stmts {
		if _, ok := s.(node.Block); ok {
			panic("ast: a block cannot contain a block")
		}
		for _, l := range strings.Split(Stmt(s, st), "\n") {
			b.WriteString(st.Indent + l + "\n")
		}
	}
	b.WriteString("}")
	return b.String()
}

// body prints a statement body: braces for a Block, for AllBraces, and where
// a following else would otherwise attach to an inner if.
func body(n node.Type, st Style, elseFollows bool) string {
	if blk, ok := n.(node.Block); ok {
		return braced(blk.Body, st)
	}
	if st.AllBraces || (elseFollows && DanglingIf(n)) {
		return braced([]node.Type{n}, st)
	}
	return Stmt(n, st)
}

// bodyAfterExpr additionally braces a one-line body whose first token would
// continue the preceding expression: `(` (a call or nothing else), `[` (an
// index) or `-` (a subtraction).
func bodyAfterExpr(prev node.Type, n node.Type, st Style, elseFollows bool) string {
	s := body(n, st, elseFollows)
	if len(s) > 0 && (s[0] == '(' || s[0] == '[' || s[0] == '-') {
		if _, ok := n.(node.Block); !ok {
			return braced([]node.Type{n}, st)
		}
	}
	return s
}

// DanglingIf reports whether the one-line text of the statement ends inside
// an if without else, so that a following else would be taken by it.
func DanglingIf(n node.Type) bool {
	switch t := n.(type) {
	case node.If:
		if _, blk := t.TrueCase.(node.Block); blk {
			return true // `if c {…} else` attaches to this if as well
		}
		return true
	case node.IfElse:
		if _, blk := t.FalseCase.(node.Block); blk {
			return false
		}
		return DanglingIf(t.FalseCase)
	case node.While:
		if _, blk := t.Body.(node.Block); blk {
			return false
		}
		return DanglingIf(t.Body)
	case node.For:
		if _, blk := t.Body.(node.Block); blk {
			return false
		}
		return DanglingIf(t.Body)
	case node.Assign:
		return DanglingIf(t.Value)
	case node.Return:
		return DanglingIf(t.Target)
	case node.Yield:
		return DanglingIf(t.Target)
	case node.Function:
		if _, blk := t.Body.(node.Block); blk {
			return false
		}
		return DanglingIf(t.Body)
	}
	return false
}

// Program prints top-level statements, one per line (blocks span lines).
func Program(stmts []node.Type, st Style) string {
	parts := make([]string, len(stmts))
	for i, s := range stmts {
		parts[i] = Stmt(s, st)
	}
	return strings.Join(parts, "\n")
}

// Plain is the default style.
var Plain = Style{Indent: "  "}
