#!/bin/sh
# usage: seedmatrix.sh <seed-id> <ID> [ID...]
# Like seedrun.sh, but leaves /repo alone: the change is applied in a scratch worktree, and a scratch copy of the
# harness is pointed at it (go.mod replace + VERIF_REPO). For experiments only; registered commands always use /repo.
sid=$1; shift
export GOFLAGS=-mod=mod GOPROXY=off GOSUMDB=off GOTOOLCHAIN=local
wt=/tmp/seedwt/$sid; scr=/tmp/seedwt/verif-$sid
rm -rf $wt $scr; mkdir -p /tmp/seedwt
git -C /repo worktree add -q --detach $wt HEAD || exit 2
[ -n "$SEED_KEEP" ] || trap 'git -C /repo worktree remove --force $wt 2>/dev/null; rm -rf $wt $scr' EXIT INT TERM
git -C $wt apply ${SEED_PATCH:-/verif/seeded/$sid/patch.diff} || { echo "$sid patch does not apply"; exit 2; }
rsync -a --exclude .git --exclude evidence --exclude replays --exclude seeded ${SEED_SRC:-/verif}/ $scr/
(cd $scr/harness && go mod edit -replace github.com/paulsonkoly/calc=$wt)
sed -i "s|cp /repo/go.sum go.sum|cp $wt/go.sum go.sum|" $scr/run.sh
for id in "$@"; do
  out=$(VERIF_REPO=$wt VERIF_NOSHRINK=1 $scr/run.sh $id ${SEED_TIER:-quick} 2>&1); rc=$?
  case $rc in 1) r=DETECTED;; 0) r=missed;; *) r="harness-error($rc)";; esac
  echo "$sid $id $r"
  # keep one replay witness per detecting check next to the seeded change (replayed by TestReplays on the clean tree)
  if [ $rc = 1 ] && [ -d /verif/seeded/$sid ]; then
    f=$(ls $scr/replays/$id/*.json 2>/dev/null | head -1)
    [ -n "$f" ] && [ $(stat -c %s "$f") -lt 200000 ] && sed "s|$scr|/verif|g" "$f" > /verif/seeded/$sid/replay-$id.json
  fi
  [ -n "$SEED_VERBOSE" ] && echo "$out" | grep -E "violation: sig|HARNESS|worker [0-9]" | cut -c1-600 | head -${SEED_VERBOSE}
done
