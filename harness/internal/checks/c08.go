package checks

import (
	"encoding/json"
	"fmt"
	"sort"
	"strings"

	"github.com/paulsonkoly/calc/parser"
	"github.com/paulsonkoly/calc/types/node"

	"vharness/internal/core"
	"vharness/internal/gen"
	"vharness/internal/impl"
	"vharness/internal/refsem"
	"vharness/internal/sess"
)

// C08: a session survives errors — a failed statement leaves no trace but its globals.

type c08Stmt struct {
	Name string
	Src  string
	Twin string // failure-free statement with the same documented global effect ("" = no effect)
	Fail bool
}

func c08Prelude() []string {
	return []string{
		"g = 0", "arr = []", "s = 0",
		"id = (x) -> x",
		"dbl = (x) -> x * 2",
		"f = (x) -> x + g",
		"deep = (n) -> if n <= 0 0 else 1 + deep(n - 1)",
		"map = (f, iter) -> for e <- iter() yield f(e)",
		"dc = () -> 1 / 0", "db = () -> dc() + 1", "da = () -> db() + 1",
		"gen = () -> {\n  yield 1\n  1 / 0\n  yield 2\n}",
		"geni = () -> {\n  yield 1\n  [1][7]\n  yield 2\n}",
		"mk = (c) -> () -> c + u",
		"cl = mk(1)",
		"mkok = (c) -> () -> c + g",
		"clok = mkok(10)",
		"sc = (x) -> x",
		"mkc = (n) -> {\n  h = () -> n\n  if n <= 0 1 / 0 else mkc(n - 1) + h()\n}",
		"clg = (a) -> {\n  x = a\n  h = () -> x\n  t = deepl(100)\n  x = x + 1\n  h()\n}",
		"deepl = (n) -> {\n  la = n\n  lb = la\n  if n <= 0 0 else 1 + deepl(n - 1)\n}",
		"wd = (n) -> {\n" + wideLocals(200) + "  n\n}",
		"cgen = () -> {\n  n = 100\n  yield () -> n\n  n = 200\n  yield () -> n\n}",
		"mkhundred = () -> {\n  n = 100\n  () -> n\n}",
		"kc = () -> 0",
		// twelve variables this activation never assigns: whatever an earlier (failed) statement left in those cells, they are empty
		"un = (c) -> {\n  if c {\n    ua = 1\n    ub = 1\n    uc = 1\n    ud = 1\n    ue = 1\n    uf = 1\n    ug = 1\n    uh = 1\n    ui = 1\n    uj = 1\n    uk = 1\n    ul = 1\n  }\n  [toa(ua), toa(ub), toa(uc), toa(ud), toa(ue), toa(uf), toa(ug), toa(uh), toa(ui), toa(uj), toa(uk), toa(ul)]\n}",
	}
}

func c08Alphabet() []c08Stmt {
	return []c08Stmt{
		{"inc", "g = g + 1", "g = g + 1", false},
		{"redefine-f", "f = (x) -> x * 2 + g", "f = (x) -> x * 2 + g", false},
		{"grow-array", "arr = arr + [g]", "arr = arr + [g]", false},
		{"loop", "for i <- fromto(0, 3) s = s + i", "for i <- fromto(0, 3) s = s + i", false},
		{"lexer-error", "g = 1 £ 2", "", true},
		{"parser-error", "g = (1 +", "", true},
		{"unbalanced", "g = 5 )", "", true},
		{"zero-div", "g = 1 / 0", "", true},
		{"nil-error", "g = u + 1", "", true},
		{"type-error", "1 + \"a\"", "", true},
		{"index-error", "arr = [1][5]", "", true},
		{"arity-error", "id(1, 2)", "", true},
		{"conversion-error", "aton(\"x\")", "", true},
		{"read-error", "read()", "", true},
		{"block-partial", "{\n  g = g + 1\n  1 / 0\n  g = g + 100\n}", "g = g + 1", true},
		{"depth3", "g = da()", "", true},
		{"loop-body", "for i <- fromto(0, 5) {\n  g = g + 1\n  if i == 2 aton(\"x\")\n}", "g = g + 3", true},
		{"while-body", "while true {\n  g = g + 1\n  if g > 1 u()\n}", "{\n  g = g + 1\n  while g < 2 g = g + 1\n}", true},
		{"suspended-generator", "for i <- gen() g = g + i", "g = g + 1", true},
		{"nested-generator", "for i <- map(dbl, geni) g = g + i", "g = g + 2", true},
		{"zip-second-fails", "for i, j <- fromto(0, 3), gen() g = g + 1", "g = g + 1", true},
		{"closure-call", "g = cl()", "", true},
		{"in-function-loop", "h = () -> for i <- fromto(0, 3) for j <- gen() g + \"x\"", "h = () -> for i <- fromto(0, 3) for j <- gen() g + \"x\"", false},
		{"call-h", "h()", "", true},
		{"toplevel-return-in-loops", "for i <- fromto(0, 5) {\n  g = g + 1\n  for j <- fromto(0, 2) if i == 1 return 7\n}", "g = g + 2", false},
		{"deep-then-error", "g = deep(200) + u", "", true},
		{"error-under-closure-creating-calls", "g = mkc(12)", "", true},
		{"function-bound-then-error", "{\n  sc = (x) -> x * 10 + 7\n  da()\n}", "sc = (x) -> x * 10 + 7", true},
		{"closure-from-generator-kept-then-error", "for h <- cgen() {\n  kc = h\n  [1][5]\n}", "kc = mkhundred()", true},
		{"output-then-error", "{\n  write(\"LEAK\")\n  1 / 0\n}", "write(\"LEAK\")", true},
		{"output-in-loop-then-error", "for i <- fromto(0, 3) {\n  write(i)\n  if i == 1 u()\n}", "write(\"01\")", true},
		{"stray-closer", "}", "", true},
		{"stray-bracket", "g = 5 ]", "", true},
		{"nul-in-string", "g = \"x\x00y\"", "", true},
		{"mismatched-closer", "g = [1 }", "", true},
		{"lexer-error-inside-open-block", "{\n  g = 1 £ 2\n}", "", true},
		{"lexer-error-inside-open-block-before-an-effect", "{\n  g = 1 £ 2\n  g = g + 100\n}", "", true},
		{"lexer-error-with-opener-in-string", "g = \"{\" £ 1", "", true},
		{"lexer-error-with-opener-in-comment", "g = 1 £ 2 ; see [", "", true},
		{"stray-bracket-inside-open-block-before-an-effect", "{\n  g = [1, 2]]\n  g = g + 100\n}", "", true},
		{"lexer-error-before-a-multi-line-string", "g = 1 £ \"p\nq\"", "", true},
		{"closer-of-the-outer-construct-while-an-inner-one-is-open", "{\n  [\n}", "", true},
		{"lexer-error-then-closer-without-opener", "g = [1, £ }", "", true},
		{"closer-without-opener-then-opener", "} if false {\n  g = g + 100\n}", "", true},
		{"closer-without-opener-then-multi-line-string", "} \"abc\ndef\"", "", true},
		{"closer-without-opener-after-a-multi-line-string-in-a-block", "{\n  sq = \"a\nb\" ]\n  g = g + 100\n}", "", true},
		{"lexer-error-inside-open-literal", "g = [1,\n  2 £ 3,\n  4]", "", true},
	}
}

func c08Observers() []string {
	return []string{
		"un(false)",
		"[g, arr, s]",
		"wd(7)",
		"clg(3)",
		"f(3)",
		"{\n  acc = 0\n  for i <- fromto(0, 4) acc = acc + i\n  acc\n}",
		"{\n  r = []\n  for i <- map(dbl, () -> fromto(0, 3)) r = r + [i]\n  r\n}",
		"deep(300)",
		"clok()",
		"{\n  r = []\n  for i, j <- gen(), fromto(5, 9) r = r + [[i, j]]\n  r\n}",
		"sc(2)",
		"[1.5, \"lit\", [7, 8]]",
		"kc()",
		"g = g + 1",
		"[g, #arr]",
	}
}

type c08Item struct {
	Hist []int `json:"hist"`
}

func c08Sessions(hist []int) (full, twin []string) {
	al := c08Alphabet()
	full = append(full, c08Prelude()...)
	twin = append(twin, c08Prelude()...)
	for _, h := range hist {
		full = append(full, al[h].Src)
		if al[h].Twin != "" {
			twin = append(twin, al[h].Twin)
		}
	}
	full = append(full, c08Observers()...)
	twin = append(twin, c08Observers()...)
	return
}

// c08Judge: (1) the session with the failing statements agrees with the reference model statement by statement,
// (2) after every statement the machine is at rest (hooks), (3) the observers give the same answers as in the
// session that never saw the failures.
func c08Judge(hist []int) (sig, detail, stateKey string) {
	full, twin := c08Sessions(hist)
	residue := ""
	var lastRef *refsem.Interp
	opt := sess.Options{AllowParseErrors: true, KeepGoing: true,
		OnImplStmt: func(i int, s *impl.Session, r impl.StmtResult) {
			if residue != "" || s.Dead {
				return
			}
			st := s.M.VerifState()
			ctx := s.VM.VerifLiveContexts()
			if st.SP != 0 || st.Frames != 0 || st.Closures != 0 || ctx != 0 || s.VM.VerifMainIP() != len(*s.CR.CS) {
				residue = fmt.Sprintf("after statement %d `%s` (%s): sp=%d frames=%d closures=%d live contexts=%d ip=%d end=%d", i, clipStr(full[i], 120), r.Observed(), st.SP, st.Frames, st.Closures, ctx, s.VM.VerifMainIP(), len(*s.CR.CS))
			}
			stateKey = fmt.Sprintf("sp%d/f%d/c%d/x%d", st.SP, st.Frames, st.Closures, ctx)
		},
		OnRefStmt: func(i int, in *refsem.Interp, r refsem.Result) { lastRef = in },
	}
	o := sess.Compare(full, opt)
	names := histNames(hist)
	if o.Sig != "" {
		return "after-failure:" + o.Sig, fmt.Sprintf("history %v: %s", names, o.Detail), ""
	}
	if residue != "" {
		return "machine-not-reset", fmt.Sprintf("history %v: %s", names, residue), ""
	}
	// differential twin
	t := sess.Compare(twin, sess.Options{KeepGoing: true})
	if t.Sig != "" {
		return "twin:" + t.Sig, fmt.Sprintf("failure-free twin of history %v: %s", names, t.Detail), ""
	}
	k := len(c08Observers())
	if len(o.ImplObs) < k || len(t.ImplObs) < k {
		return "harness:short-observation", fmt.Sprint(len(o.ImplObs), len(t.ImplObs)), ""
	}
	a, b := o.ImplObs[len(o.ImplObs)-k:], t.ImplObs[len(t.ImplObs)-k:]
	for i := range a {
		if a[i] != b[i] {
			return "differs-from-failure-free-session", fmt.Sprintf("history %v: observer `%s` gives %s after the history and %s in a session with the same globals that never saw the failing statements", names, clipStr(c08Observers()[i], 80), a[i], b[i]), ""
		}
	}
	// the same two sessions typed line by line into the real read-eval loop (accumulator, processInput, echo)
	lf, lt := c08ViaLoop(full), c08ViaLoop(twin)
	if len(lf) < k || len(lt) < k {
		return "session-lost-in-read-eval-loop", fmt.Sprintf("history %v typed into the read-eval loop: %d of %d statements were answered (failure-free twin: %d of %d)", names, len(lf), len(full), len(lt), len(twin)), ""
	}
	la, lb := lf[len(lf)-k:], lt[len(lt)-k:]
	for i := range la {
		if la[i] != lb[i] {
			return "read-eval-loop-differs-from-failure-free-session", fmt.Sprintf("history %v typed into the read-eval loop: observer `%s` answers %q, in the failure-free session %q", names, clipStr(c08Observers()[i], 80), la[i], lb[i]), ""
		}
	}
	if lastRef != nil {
		gs := []string{}
		for name, v := range lastRef.Globals {
			if v.K != refsem.KFn {
				gs = append(gs, name+"="+v.Canon())
			}
		}
		sort.Strings(gs)
		stateKey += "|" + strings.Join(gs, ",")
	}
	return "", "", stateKey
}

func histNames(h []int) []string {
	al := c08Alphabet()
	r := make([]string, len(h))
	for i, x := range h {
		r[i] = al[x].Name
	}
	return r
}

func init() {
	core.Register(&core.Check{
		ID:    "C08",
		Level: "model_checking",
		Rule: "explicit-state search over session histories: all sequences of length <= 2, and a sixteenth of those of length 3 (those that begin with every sixteenth statement of the alphabet; quick) / all of length <= 4 (thorough) over 47 statements (4 good ones; lexer, parser and unbalanced-input errors, a closer of the wrong kind inside an open array literal, a character outside the language on an inner line of a block and of an array literal, on a line with an opener inside a string or a comment, on the first line of a string that spans lines, a closer without opener on an inner line of a block, the closer of an outer construct while an inner one is open, a closer without opener after a lexer error, before an opener or a multi-line string on the same line, after a multi-line string inside a block, a NUL character inside a string literal; every runtime error class at top level, at call depth 3, in a for / while body, in a generator suspended after a yield, in a nested generator, in the second iterator of a zip, in a closure call, after deep recursion, with partial global effects; after writing output; in a loop body that stored a closure handed out by a suspended generator; a top-level return out of nested loops), each history followed by 15 observers (a call that reads twelve variables it never assigned, globals, calls, a summing loop, a generator composition, a zip over a failing generator, 300-deep recursion, an escaped closure, a further update). " +
			"Every history is replayed on a fresh real VM; oracle per transition: value/output/error of every statement equal the reference model's; through the hooks the machine is at rest after every statement (sp 0, no frames, no closure frames, no live contexts, ip at end of code); the observers answer exactly as in the failure-free twin session that performs only the documented global effects. states = distinct (reference global store, machine state) after a history; transitions = history extensions executed",
		Assumptions: []string{"states are reported for coverage only; no pruning is done at these depths, every history is executed in full", "stdin is /dev/null, so read() is the read error case"},
		Exec: func(payload string) (string, string) {
			impl.Init()
			var it c08Item
			if err := json.Unmarshal([]byte(payload), &it); err != nil {
				return "harness:bad-payload", err.Error()
			}
			s, d, _ := c08Judge(it.Hist)
			return s, d
		},
		Shrink: func(payload, sig string) string {
			impl.Init()
			var it c08Item
			json.Unmarshal([]byte(payload), &it)
			h := it.Hist
			for changed := true; changed; {
				changed = false
				for i := range h {
					c := append(append([]int{}, h[:i]...), h[i+1:]...)
					if s, _, _ := c08Judge(c); s == sig {
						h, changed = c, true
						break
					}
				}
			}
			b, _ := json.Marshal(c08Item{h})
			return string(b)
		},
		Run: c08Run,
	})
}

func c08Run(w *core.W) {
	impl.Init()
	maxLen := 3
	if w.Thorough() {
		maxLen = 4
	}
	w.Family("histories")
	n := len(c08Alphabet())
	gen.Seqs(n, 0, maxLen, func(seq []int) bool {
		if !w.Thorough() && len(seq) == 3 && seq[0]%16 != 0 {
			return true // quick: all histories of length <= 2, and those of length 3 that start with every sixteenth statement
		}
		b, _ := json.Marshal(c08Item{append([]int{}, seq...)})
		if !w.Mine(string(b)) {
			return true
		}
		sig, detail, key := c08Judge(seq)
		w.Count("transitions", 1)
		w.Count("traces_validated_against_impl", 1)
		if key != "" {
			w.Set("states", key)
		}
		fails := 0
		for _, x := range seq {
			if c08Alphabet()[x].Fail {
				fails++
			}
		}
		if fails > 0 {
			w.NonTrivial()
		}
		if fails > 1 {
			w.Count("histories_with_several_failures", 1)
		}
		if sig != "" {
			w.Fail(string(b), sig, detail)
		}
		return !w.Expired("time budget reached")
	})
}

const c08Marker = "@@next@@"

// c08ViaLoop types the statements line by line into the real node.Loop (REPL style) with the real parser and a
// fresh VM; a marker statement after each one separates the answers. Reports are reduced to their first line.
func c08ViaLoop(stmts []string) []string {
	s := impl.NewSession()
	s.SetFuel(5000000)
	lines := []string{}
	for _, st := range stmts {
		lines = append(lines, strings.Split(st, "\n")...)
		lines = append(lines, "write(\""+c08Marker+"\")")
	}
	out, pan := captureReport(func() { node.VerifLoop(node.NewVerifLineReader(lines), parser.Type{}, s.VM, true) })
	if pan != "" {
		return []string{"PANIC " + pan}
	}
	parts := strings.Split(stripReports(out), c08Marker+"> nil\n")
	if len(parts) > 0 {
		parts = parts[:len(parts)-1]
	}
	for i, p := range parts {
		if strings.HasPrefix(p, "Parser:") || strings.HasPrefix(p, "Lexer:") {
			parts[i] = "PARSE-ERROR"
		}
	}
	return parts
}
