package refsem

import (
	"fmt"
	"runtime"
	"strings"

	"github.com/paulsonkoly/calc/types/node"
)

// Closure is a function value of the reference model.
type Closure struct {
	Params  []string
	Body    node.Type
	Env     *Env // the definer's own variables, shared by reference; nil when defined at top level
	Builtin string
	forkSeq int // >0: created by generator-side code directly in a forked activation
	assigns map[string]bool
}

// Env holds the own variables of one activation.
type Env struct {
	vars     map[string]Val
	writeSeq map[string]int
}

func newEnv() *Env { return &Env{vars: map[string]Val{}, writeSeq: map[string]int{}} }

// Act is one activation (function call); the top level has Own == nil.
type Act struct {
	Own      *Env
	Captured *Env
	capFork  int
	Name     string // name the callee was called by
	Params   []string
	Caller   *Act
	assigns  map[string]bool // names the function assigns somewhere in its body
}

// FrameInfo is one line of a backtrace.
type FrameInfo struct {
	Name string
	Args []Val
}

// ErrInfo describes a runtime error the way a report must.
type ErrInfo struct {
	Class    string
	Op       string        // failing operation family
	Operands []Val         // operand values in source order
	Stacks   [][]FrameInfo // per context, failing context first; innermost call first
}

type rtErr struct{ info *ErrInfo }
type retSig struct{ v Val }
type fuelOut struct{}
type exitSig struct{ code Val }

// Coro is a generator coroutine (a goroutine used with synchronous hand-off).
type Coro struct {
	resume  chan struct{}
	kill    chan struct{}
	out     chan msg
	dead    bool
	parent  *Coro
	forkAct *Act // activation that ran the for statement (nil at top level)
	base    *Act
	forkSeq int
	cur     *Act // current activation while suspended / failing
}

type msg struct {
	v    Val
	done bool
	err  interface{}
}

// Interp is a session of the reference model.
type Interp struct {
	Globals  map[string]Val
	Out      strings.Builder
	Fuel     int
	Steps    int
	Dom      map[string]int // domain flags raised while evaluating the current statement
	Err      *ErrInfo       // details of the last runtime error
	Stdin    []string       // remaining input lines for read(), each with its newline
	seq      int
	Yields   int // yields handed to a for loop
	Calls    int
	MaxDepth int
	depth    int
	// Deferred: names with a read whose resolution the static analysis leaves to run time (AnalyzeDefUse)
	Deferred map[string]bool
}

// Builtins lists the built-in function names with their arity.
var Builtins = []struct {
	Name  string
	Arity int
}{{"read", 0}, {"write", 1}, {"aton", 1}, {"toa", 1}, {"exit", 1}, {"fromto", 2}, {"indices", 1}, {"elems", 1}}

// NewInterp returns a fresh session with the built-ins defined as globals.
func NewInterp() *Interp {
	in := &Interp{Globals: map[string]Val{}, Fuel: 2000000, Dom: map[string]int{}}
	for _, b := range Builtins {
		ps := make([]string, b.Arity)
		for i := range ps {
			ps[i] = fmt.Sprintf("p%d", i)
		}
		in.Globals[b.Name] = Val{K: KFn, Fn: &Closure{Params: ps, Builtin: b.Name}}
	}
	return in
}

// Result of one top-level statement.
type Result struct {
	Val      Val
	Err      string // error class, "" when none
	Out      string
	FuelOut  bool
	Exit     bool
	ExitCode Val
	Dom      map[string]int
	Steps    int
	Info     *ErrInfo
}

// RunStmt evaluates one top-level statement.
func (in *Interp) RunStmt(n node.Type, fuel int) (res Result) {
	in.Out.Reset()
	in.Fuel = fuel
	in.Steps = 0
	in.Dom = map[string]int{}
	in.Err = nil
	in.depth = 0
	if in.Deferred == nil {
		in.Deferred = map[string]bool{}
	}
	if _, def := AnalyzeDefUse(n); len(def) > 0 {
		for k := range def {
			in.Deferred[k] = true
		}
	}
	top := &Coro{}
	topAct := &Act{}
	top.cur = topAct
	defer func() {
		if r := recover(); r != nil {
			switch x := r.(type) {
			case rtErr:
				res.Val, res.Err, res.Info = Nil, x.info.Class, x.info
			case retSig:
				res.Val = x.v
			case fuelOut:
				res.FuelOut = true
			case exitSig:
				res.Exit, res.ExitCode = true, x.code
			default:
				panic(r)
			}
		}
		res.Out = in.Out.String()
		res.Dom = in.Dom
		res.Steps = in.Steps
	}()
	res.Val = in.eval(n, topAct, top, nil)
	return res
}

func (in *Interp) flag(d string) {
	if d != "" {
		in.Dom[d]++
	}
}

func (in *Interp) fail(class, op string, act *Act, self *Coro, operands ...Val) {
	info := &ErrInfo{Class: class, Op: op, Operands: operands}
	a := act
	for c := self; c != nil; c = c.parent {
		frames := []FrameInfo{}
		for x := a; x != nil && x.Own != nil; x = x.Caller {
			args := make([]Val, len(x.Params))
			for i, p := range x.Params {
				args[i] = x.Own.vars[p]
			}
			frames = append(frames, FrameInfo{Name: x.Name, Args: args})
			if x == c.base {
				break // a forked context holds a copy of the forking frame only
			}
		}
		info.Stacks = append(info.Stacks, frames)
		a = c.forkAct
	}
	in.Err = info
	panic(rtErr{info})
}

func (in *Interp) lookup(name string, act *Act, self *Coro) Val {
	if act.Own != nil {
		if v, ok := act.Own.vars[name]; ok {
			if self.base == act && self.forkSeq > 0 && act.Own.writeSeq[name] > self.forkSeq {
				in.flag(DFork)
			}
			return v
		}
	}
	if act.Own != nil && in.Deferred[name] && act.assigns[name] {
		// the function assigns this name somewhere but has not done so in this activation: its own variable is
		// still empty (lexical reading); the dynamic reading looks outward. They agree iff that gives nil.
		if v := in.outward(name, act); v.K != KNil {
			in.flag(DUseDef)
		}
		return Nil
	}
	if act.Captured != nil {
		if v, ok := act.Captured.vars[name]; ok {
			if act.capFork > 0 && act.Captured.writeSeq[name] > act.capFork {
				in.flag(DFork)
			}
			return v
		}
	}
	return in.Globals[name]
}

func (in *Interp) outward(name string, act *Act) Val {
	if act.Captured != nil {
		if v, ok := act.Captured.vars[name]; ok {
			return v
		}
	}
	return in.Globals[name]
}

func (in *Interp) assign(name string, v Val, act *Act) {
	in.seq++
	if act.Own != nil {
		act.Own.vars[name] = v
		act.Own.writeSeq[name] = in.seq
	} else {
		in.Globals[name] = v
	}
}

func (in *Interp) tick() {
	in.Fuel--
	in.Steps++
	if in.Fuel < 0 {
		panic(fuelOut{})
	}
}

// eval: self is the running coroutine; consumer is the coroutine a yield hands
// its value to (nil: a yield with no enclosing for loop).
func (in *Interp) eval(n node.Type, act *Act, self *Coro, consumer *Coro) Val {
	in.tick()
	switch t := n.(type) {
	case node.Int:
		return Int(int(t))
	case node.Float:
		return Float(float64(t))
	case node.Bool:
		return Bool(bool(t))
	case node.String:
		return Str(string(t))
	case node.Name:
		return in.lookup(string(t), act, self)
	case node.List:
		a := make([]Val, 0, len(t.Elems))
		for _, e := range t.Elems {
			v := in.eval(e, act, self, consumer)
			if v.K == KNil {
				in.flag(DNilData)
			}
			a = append(a, v)
		}
		return Val{K: KArr, A: a}
	case node.BinOp:
		l := in.eval(t.Left, act, self, consumer)
		r := in.eval(t.Right, act, self, consumer)
		v, e, d := BinOp(t.Op, l, r)
		in.flag(d)
		if e != "" {
			in.fail(e, "binop:"+t.Op, act, self, l, r)
		}
		return v
	case node.UnOp:
		x := in.eval(t.Target, act, self, consumer)
		v, e, d := UnOp(t.Op, x)
		in.flag(d)
		if e != "" {
			if t.Op == "-" {
				in.fail(e, "binop:*", act, self, Int(-1), x)
			}
			in.fail(e, "unop:"+t.Op, act, self, x)
		}
		return v
	case node.IndexAt:
		a := in.eval(t.Ary, act, self, consumer)
		i := in.eval(t.At, act, self, consumer)
		v, e := Index1(a, i)
		if e != "" {
			in.fail(e, "index1", act, self, a, i)
		}
		return v
	case node.IndexFromTo:
		a := in.eval(t.Ary, act, self, consumer)
		i := in.eval(t.From, act, self, consumer)
		j := in.eval(t.To, act, self, consumer)
		v, e := Index2(a, i, j)
		if e != "" {
			in.fail(e, "index2", act, self, a, i, j)
		}
		return v
	case node.Function:
		ps := make([]string, 0, len(t.Parameters.Elems))
		for _, p := range t.Parameters.Elems {
			ps = append(ps, string(p.(node.Name)))
		}
		c := &Closure{Params: ps, Body: t.Body, Env: act.Own}
		if self.base == act && self.forkSeq > 0 {
			c.forkSeq = self.forkSeq
		}
		return Val{K: KFn, Fn: c}
	case node.Call:
		args := make([]Val, 0, len(t.Arguments.Elems))
		for _, e := range t.Arguments.Elems {
			v := in.eval(e, act, self, consumer)
			if v.K == KNil {
				in.flag(DNilData)
			}
			args = append(args, v)
		}
		f := in.eval(t.Name, act, self, consumer)
		if f.K != KFn {
			in.fail(ErrType, "call", act, self, f)
		}
		if len(f.Fn.Params) != len(args) {
			in.fail(ErrArity, "call", act, self, f)
		}
		name := ""
		if nm, ok := t.Name.(node.Name); ok {
			name = string(nm)
		}
		return in.call(f.Fn, name, args, act, self, consumer)
	case node.Assign:
		v := in.eval(t.Value, act, self, consumer)
		if v.K == KNil {
			in.fail(ErrNil, "assign", act, self, v)
		}
		in.assign(string(t.VarRef.(node.Name)), v, act)
		return v
	case node.Block:
		var v Val
		for _, s := range t.Body {
			v = in.eval(s, act, self, consumer)
		}
		return v
	case node.If:
		if in.cond(t.Condition, act, self, consumer) {
			return in.eval(t.TrueCase, act, self, consumer)
		}
		return Nil
	case node.IfElse:
		if in.cond(t.Condition, act, self, consumer) {
			return in.eval(t.TrueCase, act, self, consumer)
		}
		return in.eval(t.FalseCase, act, self, consumer)
	case node.While:
		var v Val
		for in.cond(t.Condition, act, self, consumer) {
			v = in.eval(t.Body, act, self, consumer)
		}
		return v
	case node.Return:
		panic(retSig{in.eval(t.Target, act, self, consumer)})
	case node.Yield:
		v := in.eval(t.Target, act, self, consumer)
		in.yieldVal(v, act, self, consumer)
		return v
	case node.For:
		return in.forLoop(t, act, self, consumer)
	}
	panic(fmt.Sprintf("refsem: unhandled node %T", n))
}

func (in *Interp) cond(c node.Type, act *Act, self, consumer *Coro) bool {
	v := in.eval(c, act, self, consumer)
	if v.K != KBool {
		in.fail(ErrType, "cond", act, self, v)
	}
	return v.B
}

func (in *Interp) call(c *Closure, name string, args []Val, caller *Act, self, consumer *Coro) (res Val) {
	in.Calls++
	in.depth++
	if in.depth > in.MaxDepth {
		in.MaxDepth = in.depth
	}
	defer func() { in.depth-- }()
	if c.assigns == nil && c.Builtin == "" {
		c.assigns = AssignedNames(c.Body)
	}
	act := &Act{Own: newEnv(), Captured: c.Env, capFork: c.forkSeq, Name: name, Params: c.Params, Caller: caller, assigns: c.assigns}
	for i, p := range c.Params {
		in.seq++
		act.Own.vars[p] = args[i]
		act.Own.writeSeq[p] = in.seq
	}
	if c.Builtin != "" {
		return in.builtin(c.Builtin, args, act, self, consumer)
	}
	defer func() {
		if r := recover(); r != nil {
			if rs, ok := r.(retSig); ok {
				res = rs.v
				return
			}
			panic(r)
		}
	}()
	return in.eval(c.Body, act, self, consumer)
}

func (in *Interp) yieldVal(v Val, act *Act, self, consumer *Coro) {
	if consumer != nil {
		in.Yields++
		self.cur = act
		self.out <- msg{v: v}
		select {
		case <-self.resume:
		case <-self.kill:
			runtime.Goexit()
		}
	}
}

func (in *Interp) builtin(name string, args []Val, act *Act, self, consumer *Coro) Val {
	switch name {
	case "write":
		in.Out.WriteString(args[0].String())
		return Nil
	case "toa":
		return Str(args[0].String())
	case "aton":
		v, e := Aton(args[0])
		if e != "" {
			in.fail(e, "aton", act, self, args[0])
		}
		return v
	case "read":
		if len(in.Stdin) == 0 {
			in.fail(ErrRead, "read", act, self)
		}
		l := in.Stdin[0]
		in.Stdin = in.Stdin[1:]
		if !strings.HasSuffix(l, "\n") {
			// a final line without newline: the description does not say
			in.flag("D-read-unterminated")
		}
		return Str(l)
	case "exit":
		if args[0].K != KInt {
			in.fail(ErrType, "exit", act, self, args[0])
		}
		panic(exitSig{args[0]})
	case "fromto":
		// fromto = (a, b) -> while a < b { yield a; a = a + 1 }
		var last Val
		for {
			in.tick()
			a, b := act.Own.vars["p0"], act.Own.vars["p1"]
			c, e, d := BinOp("<", a, b)
			in.flag(d)
			if e != "" {
				in.fail(e, "binop:<", act, self, a, b)
			}
			if !c.B {
				return last
			}
			in.yieldVal(a, act, self, consumer)
			n, e, d := BinOp("+", a, Int(1))
			in.flag(d)
			if e != "" {
				in.fail(e, "binop:+", act, self, a, Int(1))
			}
			act.Own.vars["p0"] = n
			last = n
		}
	case "elems", "indices":
		x := args[0]
		i := 0
		var last Val
		for {
			in.tick()
			n, e, _ := UnOp("#", x)
			if e != "" {
				in.fail(e, "unop:#", act, self, x)
			}
			if i >= n.I {
				return last
			}
			if name == "elems" {
				el, e := Index1(x, Int(i))
				if e != "" {
					in.fail(e, "index1", act, self, x, Int(i))
				}
				in.yieldVal(el, act, self, consumer)
			} else {
				in.yieldVal(Int(i), act, self, consumer)
			}
			i++
			last = Int(i)
		}
	}
	panic("refsem: builtin " + name)
}

func (in *Interp) forLoop(t node.For, act *Act, self, consumer *Coro) (result Val) {
	n := len(t.Iterators.Elems)
	coros := make([]*Coro, n)
	defer func() {
		for _, c := range coros {
			if c != nil && !c.dead {
				c.dead = true
				close(c.kill)
			}
		}
	}()
	var forkAct *Act
	if act.Own != nil {
		forkAct = act
	}
	for {
		for k := 0; k < n; k++ {
			var m msg
			if coros[k] == nil {
				in.seq++
				c := &Coro{resume: make(chan struct{}), kill: make(chan struct{}), out: make(chan msg),
					parent: self, forkAct: forkAct, base: act, forkSeq: in.seq}
				coros[k] = c
				iter := t.Iterators.Elems[k]
				go func() {
					defer func() {
						if r := recover(); r != nil {
							c.out <- msg{err: r}
						}
					}()
					in.eval(iter, act, c, c)
					c.out <- msg{done: true}
				}()
				m = <-c.out
			} else {
				coros[k].resume <- struct{}{}
				m = <-coros[k].out
			}
			if m.err != nil {
				coros[k].dead = true
				panic(m.err)
			}
			if m.done {
				coros[k].dead = true
				return result
			}
			if m.v.K == KNil {
				in.fail(ErrNil, "assign", act, self, m.v)
			}
			in.assign(string(t.VarRefs.Elems[k].(node.Name)), m.v, act)
		}
		result = in.eval(t.Body, act, self, consumer)
	}
}
