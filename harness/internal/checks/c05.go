package checks

import (
	"encoding/json"
	"strings"

	"vharness/internal/core"
	"vharness/internal/gen"
	. "vharness/internal/gen"
	"vharness/internal/impl"
	"vharness/internal/sess"
)

// C05: no accepted program can crash the interpreter; failures are calc runtime errors.

var c05Opt = sess.Options{TotalityOnly: true, KeepGoing: true}

func init() {
	core.Register(&core.Check{
		ID:    "C05",
		Level: "exploration",
		Rule: "programs without any domain filter: (1) the operand-source x context products of C01 with the full operand list (ill-typed and nil operands included); (2) the adversarial product: every binary and unary operator over a 16-value alphabet of every kind and extreme value (zero divisors, indices -1/#s/2^63-1, shift counts -1/63/64/65) at operand depth 0/1/2 left and right, every value as if/while condition, as callee, as index and slice bound, wrong arities for user functions and all eight built-ins, aton of non-numbers; (3) every statement of at most 4 (quick) / 5 (thorough) nodes over the adversarial leaf alphabet, at top level and as a function body; (4) every token sequence of length <= 4 (quick) / 5 (thorough) over a 27-token alphabet that the parser accepts; (5) the generator x body x placement family of C02 (quick: every fourth member); (7) every pair of statements of the C08 alphabet (failures of every kind) followed by the C08 observers; (6) the statement-position product (every statement form x every body shape x 27 statement contexts); (8) every parameter list of length <= 3 over two names, repeated names included, x 14 bodies x calls of every arity; (9) five sessions of 33000 statements that cross the 2^15 limit of the data segment one, two and three entries at a time. " +
			"Each program is compiled and run on a fresh real VM under instruction fuel: a host panic, an undocumented error class or (inside the described domain) non-termination is a violation. distinct = distinct session text; non-trivial = sessions that executed at least one statement to a value or a documented runtime error",
		Assumptions: []string{
			"in-process execution with recover(): a Go panic is the observation of an internal fault; fatal runtime errors kill the worker and are attributed through the progress record",
			"fuel 64 x reference steps + 20000 VM instructions; programs the reference cannot finish, or that lie outside the described domain, are not judged for termination",
		},
		Exec: func(payload string) (string, string) {
			if strings.HasPrefix(payload, `{"sizecrossing"`) {
				impl.Init()
				var it struct{ Sizecrossing string }
				if err := json.Unmarshal([]byte(payload), &it); err != nil {
					return "harness:bad-payload", err.Error()
				}
				return c05SizeCrossing(it.Sizecrossing)
			}
			return sessExec(c05Opt)(payload)
		},
		Shrink: func(payload, sig string) string {
			if strings.HasPrefix(payload, `{"sizecrossing"`) {
				return payload
			}
			return sessShrink(c05Opt)(payload, sig)
		},
		Run: c05Run,
	})
}

// c05SizeCrossing runs one of C15's size-crossing sessions and keeps only the faults (a host panic; C15 judges the values).
func c05SizeCrossing(kind string) (sig, detail string) {
	gen, n := c15SessionSpec(kind, 33000)
	sig, detail, _, _ = c15RunSession(gen, n)
	if sig != "size-limit-host-panic" {
		return "", ""
	}
	return "host-panic:size-crossing-session", detail
}

func c05Values() []T {
	return []T{
		I(0), I(1), I(2), I(63), I(64), I(65), I(9223372036854775807), Un("-", I(1)),
		Bin("<<", I(1), I(63)), Un("-", I(9223372036854775807)), // the smallest int and its neighbour
		F(0.0), F(1.5), B(true), S(""), S("ab"), S("naïve"), L(), L(I(1), I(2)), N("id"), N("u"),
	}
}

func c05Run(w *core.W) {
	impl.Init()
	defer flushOpcodes(w)
	emit := func(stmts ...T) bool {
		all := append([]T{secondDef()}, stmts...)
		runSession(w, session(all), c05Opt)
		return !w.Expired("time budget reached")
	}

	// (2) adversarial product
	w.Family("adversarial-operators")
	vals := c05Values()
	depthCtx := []func(T) T{
		func(e T) T { return e },
		func(e T) T { return Bin("+", e, I(0)) },
		func(e T) T { return Bin("+", I(0), e) },
		func(e T) T { return Bin("*", Bin("+", e, I(0)), I(1)) },
		func(e T) T { return Blk(e, I(7)) },
	}
	for _, op := range allBinOps {
		for _, a := range vals {
			for _, b := range vals {
				for _, dc := range depthCtx {
					if !emit(dc(Bin(op, a, b))) {
						return
					}
				}
				// operands living in variables and in the temp register
				if !emit(Asg("x", a), Asg("y", b), Bin(op, N("x"), N("y")), Bin(op, Bin("+", N("x"), I(0)), N("y"))) {
					return
				}
			}
		}
	}
	w.Family("adversarial-unary-index-cond-call")
	for _, a := range vals {
		for _, op := range allUnOps {
			for _, dc := range depthCtx {
				if !emit(dc(Un(op, a))) {
					return
				}
			}
		}
		ok := emit(IfE(a, I(1), I(2))) && emit(Blk(If(a, I(1)), I(7))) && emit(If(Un("!", a), I(1))) &&
			emit(Asg("n", I(0)), Wh(a, Blk(Asg("n", Bin("+", N("n"), I(1))), If(Bin(">", N("n"), I(2)), Ret(I(9)))))) &&
			emit(Asg("x", a), Call("x", I(1))) && emit(Asg("x", a), Call("x")) &&
			emit(Call("aton", a)) && emit(Call("toa", a)) && emit(Call("write", a)) && emit(Call("elems", a)) && emit(Call("indices", a)) &&
			emit(For("i", Call("elems", a), N("i"))) && emit(For("i", Call("fromto", a, I(2)), N("i"))) && emit(For("i", Call("fromto", I(0), a), N("i"))) &&
			emit(For("i", a, N("i"))) && emit(Asg("f", Fn(P, Yld(a))), For("i", Call("f"), N("i"))) &&
			emit(Asg("f", Fn(Ps("p"), Ret(a))), Call("f", a)) && emit(Asg("x", a)) && emit(L(a, a)) && emit(Call("id", a))
		if !ok {
			return
		}
		for _, b := range vals {
			if !emit(Ix(a, b)) || !emit(Ix(Bin("+", a, a), b)) || !emit(Ix2(a, b, I(1))) || !emit(Ix2(a, I(0), b)) || !emit(Ix2(S("abc"), a, b)) || !emit(Ix2(L(I(1), I(2), I(3)), a, b)) {
				return
			}
		}
	}
	w.Family("adversarial-arity")
	for _, f := range []string{"id", "second", "read", "write", "aton", "toa", "fromto", "elems", "indices"} {
		for n := 0; n <= 3; n++ {
			args := make([]T, n)
			for i := range args {
				args[i] = I(1)
			}
			if !emit(Call(f, args...)) || !emit(For("i", Call(f, args...), N("i"))) || !emit(Bin("+", Call(f, args...), I(1))) {
				return
			}
		}
	}

	// (3) all small statements over the adversarial leaves
	w.Family("by-size-adversarial")
	g := &gen.Grammar{
		Leaves: []T{I(0), I(1), F(1.5), B(true), S("ab"), L(I(1), I(2)), N("id"), N("u"), N("x")},
		BinOps: []string{"+", "-", "/", "%", "<", "==", "&", "<<"}, UnOps: allUnOps, Calls: []string{"id"}, Names: []string{"x"},
		Index: true, Lists: true, Stmts: true,
	}
	maxN := 4
	if w.Thorough() {
		maxN = 5
	}
	for n := 1; n <= maxN; n++ {
		ok := g.EachStmt(n, func(s T) bool {
			return emit(s) && emit(Asg("h", Fn(Ps("x"), s)), Call("h", I(1)))
		})
		if !ok {
			return
		}
	}

	// (6) statement-position product
	w.Family("statement-position")
	for _, st := range stmtForms(1) {
		for _, sc := range stmtContexts() {
			if !emit(sc.F(st)...) {
				return
			}
		}
	}
	// (1) the C01 products, full operand list, no domain filter
	w.Family("operand-x-stmt-context-total")
	for ci, sc := range stmtContexts() {
		if !w.Thorough() && ci%2 == 1 {
			continue // quick: every other statement context (C01's quick tier runs all of them against the reference)
		}
		scope := scTop
		if sc.Func {
			scope = scFunc
		}
		ok := true
		forms(operands(scope, true), repBinOps[:4], func(name string, s T) {
			if ok {
				ok = emit(sc.F(s)...)
			}
		})
		if !ok {
			return
		}
	}

	// (5) the generator families of C02 (closure slice, context ids, free list, temp register across switches)
	for _, f := range c02Families(false)[:3] {
		w.Family("generators:" + f.Name)
		ok := true
		n := 0
		f.Each(func(stmts []T) bool {
			n++
			if !w.Thorough() && n%4 != 0 {
				return true // quick: every fourth loop of the family (the full family is C02's quick tier)
			}
			runSession(w, Texts(append(genPrelude(), stmts...)...), c05Opt)
			ok = !w.Expired("time budget reached")
			return ok
		})
		if !ok {
			return
		}
	}

	// (7) sessions that go on after failures (the C08 alphabet): a crash may need state left behind by an earlier error
	w.Family("sessions-after-failures")
	{
		al := c08Alphabet()
		opt := c05Opt
		opt.AllowParseErrors = true
		for a := range al {
			for b := range al {
				st := append(append([]string{}, c08Prelude()...), al[a].Src, al[b].Src)
				st = append(st, c08Observers()...)
				runSession(w, st, opt)
				if w.Expired("time budget reached") {
					return
				}
			}
		}
	}

	// (8) every parameter list of length <= 3 over two names (repeated names included: the grammar accepts them) x
	// bodies that read, assign, add locals, create closures and loop over the parameters x calls of every arity 0..4
	w.Family("parameter-lists")
	{
		bodies := []string{"a", "b", "[a, b]", "{\n  a = \"x\"\n}", "{\n  a = \"x\"\n  [a, b]\n}", "{\n  c = 5\n  [a, c]\n}", "() -> a",
			"{\n  g = () -> [a, b]\n  g()\n}", "for a <- elems([1, 2]) a", "{\n  c = 1\n  d = 2\n  e = 3\n  [a, b, c, d, e]\n}",
			"{\n  b = a\n  a = b\n}", "{\n  for a, b <- elems([1]), elems([2]) c = a\n  c\n}", "(a, a) -> a", "if a b else a"}
		names := []string{"a", "b"}
		var lists [][]string
		lists = append(lists, nil)
		for n := 1; n <= 3; n++ {
			for code := 0; code < 1<<n; code++ {
				l := []string{}
				for i := 0; i < n; i++ {
					l = append(l, names[(code>>i)&1])
				}
				lists = append(lists, l)
			}
		}
		for _, pl := range lists {
			for _, body := range bodies {
				def := "f = (" + strings.Join(pl, ", ") + ") -> " + body
				for ar := 0; ar <= 4; ar++ {
					if !w.Thorough() && ar != len(pl) && ar != len(pl)+1 && ar != 0 {
						continue
					}
					args := []string{"1", "2", "3", "4"}[:ar]
					call := "f(" + strings.Join(args, ", ") + ")"
					runSession(w, []string{"id = (x) -> x", def, call, "r = " + call, "[id(" + call + "), 7]", "h = () -> " + call, "h()", "for q <- fromto(0, 2) " + call, "id(5)"}, c05Opt)
					if w.Expired("time budget reached") {
						return
					}
				}
			}
		}
	}

	// (9) sessions that grow past what an operand can address (the size-crossing sessions of C15: one constant, one name
	// reference, two and three constants per statement): every statement either works or is refused, none aborts
	w.Family("size-crossing-sessions")
	for _, kind := range []string{"literals", "literals-odd", "names", "two-constants", "three-constants"} {
		b, _ := json.Marshal(map[string]any{"sizecrossing": kind})
		if !w.Mine(string(b)) {
			continue
		}
		w.NonTrivial()
		if sig, detail := c05SizeCrossing(kind); sig != "" {
			w.Fail(string(b), sig, detail)
		}
	}

	// (4) every accepted token sequence
	w.Family("accepted-token-sequences")
	maxTok := 4
	if w.Thorough() {
		maxTok = 5
	}
	gen.Seqs(len(c06Tokens), 1, maxTok, func(seq []int) bool {
		parts := make([]string, len(seq))
		for i, x := range seq {
			parts[i] = c06Tokens[x]
		}
		src := strings.Join(parts, " ")
		if !w.Owns(keyOf([]string{"a = 2", src})) {
			return true
		}
		// cheap pre-filter: most sequences do not parse; only accepted ones are programs
		pr := impl.Parse(src, impl.ParseFuel(len(src)))
		if pr.Err != "" || pr.Panic != "" || pr.FuelOut != "" || len(pr.Trees) == 0 {
			return true
		}
		runSession(w, []string{"a = 2", src}, c05Opt)
		return !w.Expired("time budget reached")
	})
}
