package checks

import (
	"fmt"
	"os"
	"os/exec"
	"path/filepath"
	"regexp"
	"strings"
	"time"

	"github.com/paulsonkoly/calc/lexer"
	"github.com/paulsonkoly/calc/parser"
	"github.com/paulsonkoly/calc/types/node"

	"vharness/internal/core"
	"vharness/internal/gen"
	"vharness/internal/impl"
)

// C06: the front end is total.

var c06Alphabet = []string{"1", "a", " ", "\n", "\"", "\\", ";", "+", "(", ")", "{", "}", "[", ".", "=", "£"}

var c06Tokens = []string{"if", "else", "while", "for", "return", "yield", "true", "a", "1", "1.5", "\"s\"", "(", ")", "{", "}", "[", "]", ",", ":", "->", "<-", "=", "+", "-", "==", "!", "\n"}

var caretLine = regexp.MustCompile(`^ *\^~*\^$`)

type c06State struct {
	s *impl.Session
}

func (st *c06State) session() *impl.Session {
	if st.s == nil || st.s.Dead {
		st.s = impl.NewSession()
	}
	return st.s
}

// c06Judge checks one input text. accepted: the parser returned trees and no error.
func c06Judge(st *c06State, in string) (sig, detail string, accepted bool) {
	pr := impl.Parse(in, impl.ParseFuel(len(in)))
	q := fmt.Sprintf("%q", clipStr(in, 200))
	if pr.Panic != "" {
		return "front-end-panic@" + pr.PanicSite, q + ": parser.Parse aborted the host: " + pr.Panic + " in " + pr.PanicSite, false
	}
	if pr.FuelOut != "" {
		return "front-end-hang", fmt.Sprintf("%s: parser.Parse did not finish within %d lexer/parser steps", q, impl.ParseFuel(len(in))), false
	}
	if pr.Err == "" {
		return "", "", true
	}
	if pr.From < 0 || pr.To < pr.From || pr.To > len(in) {
		return "error-span-outside-input", fmt.Sprintf("%s: error %q has span [%d,%d), input length %d", q, pr.Err, pr.From, pr.To, len(in)), false
	}
	// the error report
	_, perr := parser.Parse(in)
	rep, pan := captureReport(func() { node.VerifReportError(perr, in) })
	if pan != "" {
		return "report-panic:" + pan, q + ": displaying the error failed: " + pan, false
	}
	lines := strings.Split(strings.TrimSuffix(rep, "\n"), "\n")
	if len(lines) < 3 || lines[0] != strings.Split(perr.Message(), "\n")[0] || !caretLine.MatchString(lines[len(lines)-1]) {
		return "report-shape", fmt.Sprintf("%s: the report is not message / source line / caret line: %q", q, rep), false
	}
	// the erroneous input must not execute anything
	s := st.session()
	csLen, dsLen := len(*s.CR.CS), len(*s.CR.DS)
	globals := len(s.M.VerifGlobals())
	out, pan := captureReport(func() { node.VerifProcessInput(in, parser.Type{}, s.VM, true) })
	if pan != "" {
		st.s = nil
		return "process-input-panic:" + pan, q + ": processInput failed: " + pan, false
	}
	if len(*s.CR.CS) != csLen || len(*s.CR.DS) != dsLen || len(s.M.VerifGlobals()) != globals || out != rep {
		st.s = nil
		return "executed-despite-error", fmt.Sprintf("%s: a parse error was reported but code=%d→%d data=%d→%d globals=%d→%d output %q (report alone is %q)", q, csLen, len(*s.CR.CS), dsLen, len(*s.CR.DS), globals, len(s.M.VerifGlobals()), out, rep), false
	}
	return "", "", false
}

// parseOnly is a node.Parser that parses with the real parser (so that errors are reported as usual) but hands
// back no trees: nothing is executed. It records the inputs it was given.
type parseOnly struct{ inputs []string }

func (p *parseOnly) Parse(in string) ([]node.Type, node.ParserError) {
	p.inputs = append(p.inputs, in)
	_, err := parser.Parse(in)
	if err != nil {
		return nil, err
	}
	return nil, nil
}

const c06Marker = `write("@@after@@")`

// c06ViaLoop types the input, then a marker line, into the real read-eval loop (line accumulation by complete(),
// processInput, reportError) under lexer and parser fuel. The loop must come back; and when the input holds no quote,
// brace or bracket (nothing that could make it incomplete) the marker line must reach the parser as an input of its own.
func c06ViaLoop(in string) (sig, detail string) {
	lines := append(strings.Split(in, "\n"), c06Marker)
	s := impl.NewSession()
	s.SetFuel(100000)
	po := &parseOnly{}
	budget := 3000 * (len(in) + 64) * (len(lines) + 1)
	ticks := 0
	_, pan := captureReport(func() {
		lexer.VerifTick = func() {
			ticks++
			if ticks > budget {
				panic(impl.FuelPanic{What: "lexer"})
			}
		}
		node.VerifLoop(node.NewVerifLineReader(lines), po, s.VM, true)
	})
	q := fmt.Sprintf("%q", clipStr(in, 200))
	if pan != "" {
		if strings.Contains(pan, "lexer") && ticks > budget {
			return "read-eval-loop-hang", fmt.Sprintf("%s typed into the read-eval loop: it did not come back within %d lexer/parser steps", q, budget)
		}
		return "read-eval-loop-panic:" + pan, q + " typed into the read-eval loop: " + pan
	}
	if !strings.ContainsAny(in, "\"{}[]") {
		if len(po.inputs) == 0 || po.inputs[len(po.inputs)-1] != c06Marker {
			return "read-eval-loop-swallows-next-line", fmt.Sprintf("%s typed into the read-eval loop, then the line %s: the inputs handed to the parser were %q", q, c06Marker, po.inputs)
		}
	}
	return "", ""
}

func clipStr(s string, n int) string {
	if len(s) > n {
		return s[:n/2] + "…" + s[len(s)-n/2:]
	}
	return s
}

func captureReport(f func()) (out string, pan string) {
	impl.CaptureBegin()
	defer func() {
		lexer.VerifTick = nil
		if r := recover(); r != nil {
			pan = fmt.Sprint(r) + " @" + impl.PanicSite()
			pan = strings.Split(pan, "\n")[0]
		}
		out = impl.CaptureEnd()
	}()
	f()
	return
}

func init() {
	core.Register(&core.Check{
		ID:    "C06",
		Level: "exploration",
		Rule: "(i) all strings over a 16-symbol alphabet {1 a blank newline \" \\ ; + ( ) { } [ . = £} up to length 5 (quick) / 6 (thorough); (ii) all token sequences over a 27-token alphabet (keywords, literals, brackets, separators, operators, newline) up to length 4 (quick) / 5 (thorough); (iii) scaling families: integer literals of 1..40 digits, floats up to 400 digits, every bracket kind nested 1..200, 1000, 10000 deep, a valid program truncated at every position and continued by an unterminated string / comment / escape or an invalid byte, empty input; (iii') errors at every distance from both ends of lines of 60..1000 characters, alone and inside multi-line inputs; (iv) marker statements followed by a syntax or lexical error (stray closers, NUL bytes, out-of-range literals, open strings) through the built cmd/calc binary in -eval, file and piped-REPL mode, followed by a further statement; (v) every input of (iii), every token sequence and string one step shorter than the bound typed line by line into the real read-eval loop with a parse-only parser. " +
			"Each input: parser.Parse under lexer+parser fuel must return without panic; a reported error must have a span inside the input, reportError must print message/source/caret without failing, and processInput must leave code, data, globals and output (apart from the report) untouched; the read-eval loop must come back within its fuel and, for inputs without quote, brace or bracket, hand the following line to the parser as an input of its own; the binary must not abort or hang, and must run the statement that follows such an input. distinct = distinct input; non-trivial = inputs of at least 2 tokens/characters that reach the parser (no lexer error)",
		Assumptions: []string{
			"fuel: lexer loop iterations + TLexer.Next + TLexer.Snapshot calls, budget 2000 per input byte (measured maximum on the grammar: about 50 per byte)",
			"resource exhaustion of the host (Go stack on nesting deeper than 10000) is outside the bound",
		},
		NeedsCalcBinary: true,
		Exec: func(payload string) (string, string) {
			impl.Init()
			p := stmtsOf(payload)
			if len(p) == 2 && p[0] == "binary" {
				return c06BinaryItem(ensureCalcBinary(), strings.TrimPrefix(p[1], "-eval "))
			}
			if len(p) == 2 && (p[0] == "binary-file" || p[0] == "binary-repl") {
				return c06BinaryScript(ensureCalcBinary(), strings.TrimPrefix(p[0], "binary-"), p[1])
			}
			if len(p) == 2 && p[0] == "loop" {
				return c06ViaLoop(p[1])
			}
			s, d, _ := c06Judge(&c06State{}, p[0])
			return s, d
		},
		Run: c06Run,
	})
}

func c06Run(w *core.W) {
	impl.Init()
	st := &c06State{}
	n := 0
	viaLoop := true
	judge := func(in string) bool {
		if !w.Mine(in) {
			return true
		}
		sig, detail, accepted := c06Judge(st, in)
		if sig != "" {
			w.Fail(payloadOf([]string{in}), sig, detail)
		}
		if viaLoop && sig == "" && strings.Count(in, "\n") <= 300 {
			w.Count("typed_into_read_eval_loop", 1)
			if lsig, ldetail := c06ViaLoop(in); lsig != "" {
				w.Fail(payloadOf([]string{"loop", in}), lsig, ldetail)
			}
		}
		if accepted {
			w.Count("accepted", 1)
		} else if sig == "" {
			w.Count("rejected_with_error_report", 1)
		}
		if len(in) >= 2 {
			w.NonTrivial()
		}
		n++
		return n%2048 != 0 || !w.Expired("time budget reached")
	}

	// (iii) scaling families first (small)
	w.Family("scaling")
	{
		judge("")
		for k := 1; k <= 40; k++ {
			judge(strings.Repeat("9", k))
			judge("x = " + strings.Repeat("9", k) + " + 1")
		}
		for _, k := range []int{1, 10, 100, 300, 308, 309, 310, 400} {
			judge("1" + strings.Repeat("0", k) + ".5")
			judge("0." + strings.Repeat("0", k) + "1")
		}
		depths := []int{}
		for d := 1; d <= 200; d++ {
			depths = append(depths, d)
		}
		depths = append(depths, 1000, 10000)
		for _, d := range depths {
			judge(strings.Repeat("(", d) + "1" + strings.Repeat(")", d))
			judge(strings.Repeat("[", d) + "1" + strings.Repeat("]", d))
			judge(strings.Repeat("f(", d) + "1" + strings.Repeat(")", d))
			judge(strings.Repeat("(", d) + "1")
			judge(strings.Repeat("[", d))
			judge(strings.Repeat("{\n", d))
			judge(strings.Repeat("if true {\n", d) + "1" + strings.Repeat("\n}", d))
			judge(strings.Repeat("() -> ", d) + "1")
			judge(strings.Repeat("-", d) + "1")
			judge(strings.Repeat("- ", d) + "1")
		}
		// for loops whose numbers of variables and iterators differ (the parser's own error, not the combinators')
		for _, in := range []string{"for a, b <- f() 1", "for a <- f(), g() 1", "for a, b, c <- f(), g() 1", "for a, b <- f(), g(), h() 1",
			"for <- f() 1", "for a, <- f() 1", "for a <- 1", "for a, b <- f(), g()", "for a, a <- f(), g() a", "x = for a, b <- f() 1", "{\nfor a, b <- f() 1\n}"} {
			judge(in)
		}
		// errors at every distance from both ends of long lines, alone and inside a multi-line input
		for _, L := range []int{60, 100, 119, 120, 121, 122, 179, 180, 181, 239, 240, 241, 245, 300, 1000} {
			var b strings.Builder
			b.WriteString("x = [")
			for b.Len() < L-2 {
				b.WriteString("1, ")
			}
			line := b.String()[:L-2] + "1]"
			for pos := 5; pos < len(line); pos++ {
				if pos > 70 && pos < len(line)-70 && pos%13 != 0 {
					continue
				}
				for _, bad := range []string{",,", " ) ", "£"} {
					broken := line[:pos] + bad + line[pos:]
					judge(broken)
					judge("[\n" + broken + "\n]")
					judge("{\ny = 1\n" + broken + "\nz = 2\n}")
				}
			}
		}
		prog := "f = (a, b) -> {\n  x = [1, \"s\"] + a[0:1]\n  if !(x == b) return 1.5 else yield x\n}\nfor i <- f(1, 2) write(i) ; c"
		for i := 0; i <= len(prog); i++ {
			judge(prog[:i])
			for _, tail := range []string{"\"abc", "; note", "\"ab\\", "\xff", "\x00", "\x00 1", "£", "\\", "\"\\", "1.", "A"} {
				judge(prog[:i] + tail)
				judge(prog[:i] + tail + prog[i:])
			}
		}
	}

	// (ii) token sequences
	w.Family("token-sequences")
	maxTok := 4
	if w.Thorough() {
		maxTok = 5
	}
	ok := true
	gen.Seqs(len(c06Tokens), 0, maxTok, func(seq []int) bool {
		viaLoop = len(seq) < maxTok
		parts := make([]string, len(seq))
		for i, x := range seq {
			parts[i] = c06Tokens[x]
		}
		ok = judge(strings.Join(parts, " "))
		return ok
	})
	if !ok {
		return
	}

	// (i) strings
	w.Family("strings")
	maxLen := 5
	if w.Thorough() {
		maxLen = 6
	}
	gen.Seqs(len(c06Alphabet), 0, maxLen, func(seq []int) bool {
		viaLoop = len(seq) < maxLen
		var b strings.Builder
		for _, x := range seq {
			b.WriteString(c06Alphabet[x])
		}
		ok = judge(b.String())
		return ok
	})
	if !ok {
		return
	}

	// (iv) through the built binary
	if w.CalcBinary != "" {
		c06Binary(w)
	}
}

// c06Binary: marker statements followed by a syntax error must not execute in any mode.
func c06Binary(w *core.W) {
	w.Family("binary-modes")
	markers := []string{"write(7)", "x = 1\nwrite(7)", "{\nwrite(7)\n}"}
	garbage := []string{" )", "\n)", " 1 2 +", "\n1 +", " £", " \"open", "\n}", " else 1", "\x00", " \x00", "\n\x00", " 9\x00 1", " 99999999999999999999", "\n99999999999999999999", " (99999999999999999999", "\n\"ab\\", " ; c\x00"}
	for _, m := range markers {
		for _, g := range garbage {
			in := m + g
			pr := impl.Parse(in, impl.ParseFuel(len(in)))
			if pr.Err == "" {
				continue // not an erroneous input after all
			}
			calcBinaryPath = w.CalcBinary
			for _, mode := range []string{"file", "repl"} {
				if mode == "repl" && strings.ContainsAny(in, "\x00\x01\x02\x03\x04") {
					// the REPL reads through a line editor (chzyer/readline) that takes control characters as
					// editing keys: such bytes never reach calc's front end (DESIGN §0.5)
					continue
				}
				key := mode + " " + in
				if !w.Mine(key) {
					continue
				}
				w.NonTrivial()
				if sig, detail := c06BinaryScript(w.CalcBinary, mode, in); sig != "" {
					w.Fail(payloadOf([]string{"binary-" + mode, in}), sig, detail)
				}
			}
			if strings.Contains(m, "\n") || strings.Contains(in, "\x00") {
				continue // -eval takes a single line (multi-line inputs are C16's subject), and an argument cannot hold a NUL byte
			}
			key := "-eval " + in
			if !w.Mine(key) {
				continue
			}
			w.NonTrivial()
			calcBinaryPath = w.CalcBinary
			if sig, detail := c06BinaryItem(w.CalcBinary, in); sig != "" {
				w.Fail(payloadOf([]string{"binary", key}), sig, detail)
			}
		}
	}
}

// c06BinaryScript: the erroneous input followed by a marker statement as a script file and piped into the REPL.
func c06BinaryScript(bin, mode, in string) (sig, detail string) {
	script := in + "\nwrite(\"@@after@@\")\n"
	var out string
	var err error
	if mode == "file" {
		fn := filepath.Join(c16ScratchDir(), fmt.Sprintf("c06-%d.calc", os.Getpid()))
		if werr := os.WriteFile(fn, []byte(script), 0o644); werr != nil {
			return "harness:cannot-run-binary", werr.Error()
		}
		out, err = runCalc(bin, "", fn)
	} else {
		out, err = runCalc(bin, script)
	}
	if err != nil {
		return binarySig(err, mode), fmt.Sprintf("%q in %s mode: %v", in, mode, err)
	}
	if strings.Contains(out, "panic:") || strings.Contains(out, "fatal error:") {
		return "binary-abort:" + mode, fmt.Sprintf("%q in %s mode aborted: %q", in, mode, clipStr(out, 400))
	}
	if strings.Contains(out, "7") && !strings.Contains(in, "7\n") {
		// (the marker statement of the input is `write(7)`; an input whose first line is complete and valid may run it)
	}
	if !strings.ContainsAny(in, "\"{}[]") && !strings.Contains(out, "@@after@@") {
		return "session-lost-after-front-end-error:" + mode, fmt.Sprintf("%q followed by a further statement in %s mode: the further statement did not run, output %q", in, mode, clipStr(out, 300))
	}
	return "", ""
}

func c06BinaryItem(bin, in string) (sig, detail string) {
	pr := impl.Parse(in, impl.ParseFuel(len(in)))
	out, err := runCalc(bin, "", "-eval", in)
	if err != nil {
		return binarySig(err, "-eval"), fmt.Sprintf("calc -eval %q: %v", in, err)
	}
	if strings.Contains(out, "panic:") || strings.Contains(out, "fatal error:") {
		return "binary-abort:-eval", fmt.Sprintf("calc -eval %q aborted: %q", in, clipStr(out, 400))
	}
	if pr.Err != "" && strings.Contains(out, "7") && !strings.Contains(pr.Err, "7") {
		return "executed-despite-error:-eval", fmt.Sprintf("calc -eval %q reports a parse error (%s) and still writes 7: output %q", in, pr.Err, out)
	}
	return "", ""
}

var calcBinaryPath string

// ensureCalcBinary builds /repo/cmd/calc once per process when no runner-built binary is known (replay mode).
func ensureCalcBinary() string {
	if calcBinaryPath != "" {
		return calcBinaryPath
	}
	dir, err := os.MkdirTemp("", "vcheck-calc-")
	if err != nil {
		panic(err)
	}
	bin := filepath.Join(dir, "calc")
	cmd := exec.Command("go", "build", "-o", bin, "./cmd/calc")
	cmd.Dir = core.RepoDir()
	cmd.Env = append(os.Environ(), "GOFLAGS=-mod=mod", "GOPROXY=off", "GOSUMDB=off", "GOTOOLCHAIN=local")
	if out, err := cmd.CombinedOutput(); err != nil {
		panic(fmt.Sprintf("building cmd/calc failed: %v %s", err, out))
	}
	calcBinaryPath = bin
	return bin
}

// errBinaryStuck: the built binary was still running after 120 s on an input the in-process run finishes in
// milliseconds within its instruction fuel.
var errBinaryStuck = fmt.Errorf("calc binary did not finish within 120 s")

// binarySig names the failure of a run of the built binary: not finishing is a failure of the item, anything else
// (cannot start, cannot write the script) is the harness's problem.
func binarySig(err error, mode string) string {
	if err == errBinaryStuck {
		return "binary-does-not-finish:" + mode
	}
	return "harness:cannot-run-binary"
}

// runCalc runs the built binary; a run that is still going after 120 s is killed (errBinaryStuck).
func runCalc(bin, stdin string, args ...string) (string, error) {
	cmd := exec.Command(bin, args...)
	cmd.Stdin = strings.NewReader(stdin)
	done := make(chan struct{})
	var out []byte
	var err error
	go func() { out, err = cmd.CombinedOutput(); close(done) }()
	select {
	case <-done:
	case <-time.After(120 * time.Second):
		cmd.Process.Kill()
		<-done
		return string(out), errBinaryStuck
	}
	if _, ok := err.(*exec.ExitError); ok {
		err = nil
	}
	return string(out), err
}
