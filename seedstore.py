#!/usr/bin/env python3
"""usage: seedstore.py <out-dir> <property id> <round-tag> [n ...]
Stores confirmed seeded changes produced by a sub-agent (patch<n>.diff, demo<n>*, notes.json) as
/verif/seeded/<ID>-<round-tag>-<n>/ (patch.diff, demonstration, meta.json). Run seedverify.sh first."""
import json, os, shutil, sys
out, pid, tag = sys.argv[1:4]
only = [int(x) for x in sys.argv[4:]]
notes = json.load(open(out + '/notes.json'))
rnd = int(tag[1:]) if tag[:1] == 'r' and tag[1:].isdigit() else 1
for n in notes:
    k = n['n']
    if only and k not in only:
        continue
    d = f'/verif/seeded/{pid}-{tag}-{k}'
    os.makedirs(d, exist_ok=True)
    shutil.copy(f'{out}/patch{k}.diff', d + '/patch.diff')
    for f in os.listdir(out):
        if f.startswith(f'demo{k}') and os.path.isfile(out + '/' + f):
            shutil.copy(out + '/' + f, d + '/' + f)
    meta = {"id": f"{pid}-{tag}-{k}", "property": pid, "round": rnd, "file": n.get('file', ''), "what": n['what'], "needs": n['needs'],
            "origin": "fresh sub-agent given only the property text and its own scratch worktree of /repo",
            "confirmed": "applied in a scratch worktree of /repo HEAD (outside /repo and /verif): builds, vets, builds with -tags verif; go test -count=1 ./... passes unchanged; the demonstration fails with the change and passes without it (seedverify.sh / seedverify_go.sh)"}
    json.dump(meta, open(d + '/meta.json', 'w'), indent=1)
    print('stored', d)
