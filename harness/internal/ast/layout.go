package ast

import "strings"

// Layout variants of a printed program: the same token sequence with more
// blank space, blank lines inside blocks and array literals, and comments.

type ltok struct {
	text     string
	from, to int
	word     bool // name / keyword / number
}

const stickyChars = "+*/=<>!%-&|#~"

func scan(src string) []ltok {
	toks := []ltok{}
	i := 0
	for i < len(src) {
		c := src[i]
		switch {
		case c == ' ' || c == '\t' || c == '\n':
			i++
		case c == ';':
			for i < len(src) && src[i] != '\n' {
				i++
			}
		case c == '"':
			j := i + 1
			for j < len(src) && src[j] != '"' {
				if src[j] == '\\' {
					j++
				}
				j++
			}
			j++
			toks = append(toks, ltok{src[i:j], i, j, false})
			i = j
		case (c >= 'a' && c <= 'z') || (c >= '0' && c <= '9'):
			j := i
			for j < len(src) && ((src[j] >= 'a' && src[j] <= 'z') || (src[j] >= '0' && src[j] <= '9') || src[j] == '.') {
				j++
			}
			toks = append(toks, ltok{src[i:j], i, j, true})
			i = j
		case strings.IndexByte(stickyChars, c) >= 0:
			j := i
			for j < len(src) && strings.IndexByte(stickyChars, src[j]) >= 0 {
				j++
			}
			toks = append(toks, ltok{src[i:j], i, j, false})
			i = j
		default:
			toks = append(toks, ltok{src[i : i+1], i, i + 1, false})
			i++
		}
	}
	return toks
}

var keywords = map[string]bool{"if": true, "else": true, "while": true, "for": true, "return": true, "yield": true}

// Layouts returns every single-site layout deviation of src (the output of
// Stmt / Program): at each gap between two tokens one more blank or a tab; at
// each line break inside a block a blank line or a comment; after '[' and
// after ',' inside an array literal a line break; at the end of the input a
// newline, a blank line or a comment.
func Layouts(src string) []string {
	toks := scan(src)
	out := []string{}
	if len(toks) == 0 {
		return out
	}
	// which '[' open an array literal (as opposed to an index)?
	type br struct {
		ch      byte
		literal bool
	}
	stack := []br{}
	inLiteral := make([]bool, len(toks)) // token i is a '[' or ',' directly inside an array literal
	for i, t := range toks {
		switch t.text {
		case "[":
			lit := true
			if i > 0 {
				p := toks[i-1]
				if (p.word && !keywords[p.text]) || p.text == ")" || p.text == "]" || strings.HasPrefix(p.text, "\"") {
					lit = false
				}
			}
			stack = append(stack, br{'[', lit})
			inLiteral[i] = lit
		case "(", "{":
			stack = append(stack, br{t.text[0], false})
		case "]", ")", "}":
			if len(stack) > 0 {
				stack = stack[:len(stack)-1]
			}
		case ",":
			if len(stack) > 0 && stack[len(stack)-1].ch == '[' && stack[len(stack)-1].literal {
				inLiteral[i] = true
			}
		}
	}
	for i := 0; i+1 < len(toks); i++ {
		gap := src[toks[i].to:toks[i+1].from]
		pre, post := src[:toks[i].to], src[toks[i+1].from:]
		if strings.Contains(gap, "\n") {
			for _, g := range []string{"\n\n", " ; note\n", "\n;{[\"\n", " \n", " ; naïve 語\n"} {
				out = append(out, pre+strings.Replace(gap, "\n", g, 1)+post)
			}
			continue
		}
		for _, g := range []string{gap + " ", gap + "\t"} {
			out = append(out, pre+g+post)
		}
		if inLiteral[i] {
			out = append(out, pre+"\n"+gap+post, pre+" ; c\n\n"+post)
		}
	}
	for _, tail := range []string{"\n", "\n\n", " ; c", " ", "\n; c\n", " ; é"} {
		out = append(out, src+tail)
	}
	out = append(out, " "+src, "\t"+src)
	return out
}
