#!/bin/sh
# usage: seedverify.sh <out-dir> <n>     e.g. seedverify.sh /tmp/seed/C05-out 1
# Confirms a seeded change in a scratch worktree outside /repo and /verif: applies, builds, vets, passes the
# repository's tests, and runs the demonstration with and without the change. Removes the worktree afterwards.
out=$1; n=$2
export GOFLAGS=-mod=mod GOPROXY=off GOSUMDB=off GOTOOLCHAIN=local
wt=/tmp/seedv/$(basename $out)-$n
rm -rf $wt; mkdir -p /tmp/seedv
git -C /repo worktree add -q --detach $wt HEAD || exit 2
cleanup() { git -C /repo worktree remove --force $wt 2>/dev/null; rm -rf $wt /tmp/seedv/bin.$$.*; }
trap cleanup EXIT INT TERM
(cd $wt && go build -o /tmp/seedv/bin.$$.orig ./cmd/calc) || { echo "orig build fails"; exit 2; }
git -C $wt apply $out/patch$n.diff || { echo "PATCH DOES NOT APPLY"; exit 3; }
echo "files: $(git -C $wt diff --stat | tail -1)"
(cd $wt && go build ./... && go vet ./... ) >/dev/null 2>&1 && echo "build+vet: ok" || echo "build+vet: FAIL"
(cd $wt && go build -tags verif ./... ) >/dev/null 2>&1 && echo "build -tags verif: ok" || echo "build -tags verif: FAIL"
t=$(cd $wt && go test -count=1 ./... 2>&1 | grep -c "^FAIL\|^---")
echo "repo tests failing lines: $t"
(cd $wt && go build -o /tmp/seedv/bin.$$.mut ./cmd/calc)
if [ -f $out/demo$n.calc ]; then
  inp=/dev/null; [ -f $out/demo$n.input ] && inp=$out/demo$n.input
  timeout 300 /tmp/seedv/bin.$$.orig $out/demo$n.calc < $inp > /tmp/seedv/bin.$$.o1 2>&1; r1=$?
  timeout 300 /tmp/seedv/bin.$$.mut $out/demo$n.calc < $inp > /tmp/seedv/bin.$$.o2 2>&1; r2=$?
  if cmp -s /tmp/seedv/bin.$$.o1 /tmp/seedv/bin.$$.o2 && [ $r1 = $r2 ]; then echo "DEMO-DIFFERS: no"; else echo "DEMO-DIFFERS: yes (exit $r1 without, $r2 with)"; fi
  echo "--- demo WITHOUT the change:"; head -${LINES_MAX:-12} /tmp/seedv/bin.$$.o1 | cut -c1-200
  echo "--- demo WITH the change:"; head -${LINES_MAX:-12} /tmp/seedv/bin.$$.o2 | cut -c1-200
elif ls $out/demo${n}_test.go >/dev/null 2>&1 || ls $out/demo$n.go >/dev/null 2>&1; then
  echo "(Go demo: see demo$n.txt)"; sed -n 1,25p $out/demo$n.txt
fi
