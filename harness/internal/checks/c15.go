package checks

import (
	"encoding/json"
	"fmt"
	"strings"

	"github.com/paulsonkoly/calc/parser"
	"github.com/paulsonkoly/calc/types/bytecode"
	"github.com/paulsonkoly/calc/types/node"
	"github.com/paulsonkoly/calc/types/value"

	"vharness/internal/core"
	"vharness/internal/impl"
)

// C15: encodings are lossless and size limits are enforced, never wrapped.

func tryEncode(sel int, kind uint64, addr int) (enc bytecode.Type, refused bool) {
	defer func() {
		if recover() != nil {
			refused = true
		}
	}()
	return bytecode.EncodeSrc(sel, kind, addr), false
}

func decodeSrc(b bytecode.Type, sel int) (uint64, int) {
	switch sel {
	case 0:
		return b.Src0(), b.Src0Addr()
	case 1:
		return b.Src1(), b.Src1Addr()
	}
	return b.Src2(), b.Src2Addr()
}

// c15Operand: decode(encode(x)) == x, other fields untouched, or the encoder refuses.
func c15Operand(sel int, kind uint64, addr int) (sig, detail string, refused bool) {
	enc, refused := tryEncode(sel, kind, addr)
	if refused {
		return "", "", true
	}
	k, a := decodeSrc(enc, sel)
	if k != kind || a != addr {
		return fmt.Sprintf("operand-roundtrip:sel%d", sel), fmt.Sprintf("EncodeSrc(%d, kind %d, addr %d) decodes as kind %d addr %d", sel, kind, addr, k, a), false
	}
	for other := 0; other < 3; other++ {
		if other == sel {
			continue
		}
		if k2, a2 := decodeSrc(enc, other); k2 != 0 || a2 != 0 {
			return "operand-spills", fmt.Sprintf("EncodeSrc(%d, %d, %d) also sets operand %d to kind %d addr %d", sel, kind, addr, other, k2, a2), false
		}
	}
	if enc.OpCode() != 0 {
		return "operand-spills", fmt.Sprintf("EncodeSrc(%d, %d, %d) sets opcode bits %v", sel, kind, addr, enc.OpCode()), false
	}
	return "", "", false
}

func c15Function(entry, params, locals int) (sig, detail string, refused bool) {
	var v value.Type
	func() {
		defer func() {
			if recover() != nil {
				refused = true
			}
		}()
		v = value.NewFunction(entry, nil, params, locals)
	}()
	if refused {
		return "", "", true
	}
	fd, ok := v.ToFunction()
	if !ok || fd.Node != entry || fd.ParamCnt != params || fd.LocalCnt != locals {
		return "function-roundtrip", fmt.Sprintf("NewFunction(entry %d, params %d, locals %d) reads back as entry %d params %d locals %d", entry, params, locals, fd.Node, fd.ParamCnt, fd.LocalCnt), false
	}
	return "", "", false
}

// ---------------------------------------------------------------- size-crossing sessions

type c15Session struct {
	Kind string `json:"kind"`
	N    int    `json:"n"`
}

func letters(k int) string {
	s := ""
	for {
		s = string(rune('a'+k%26)) + s
		k = k/26 - 1
		if k < 0 {
			break
		}
	}
	return "v" + s
}

func isRefusal(out string) bool {
	first := strings.SplitN(out, "\n", 2)[0]
	return out != "" && !strings.HasPrefix(out, "> ") && !strings.Contains(out, "RUNTIME ERROR") && strings.Contains(strings.ToLower(first), "error")
}

// c15RunSession feeds statements to the real processInput path; expect[i]=="" means no echo expected (only no fault).
// It returns the first statement that is neither right nor refused.
func c15RunSession(stmts func(i int) (src, want string), n int) (sig, detail string, refusedAt int, executed int) {
	s := impl.NewSession()
	refusedAt = -1
	for i := 0; i < n; i++ {
		src, want := stmts(i)
		csLen, dsLen := len(*s.CR.CS), len(*s.CR.DS)
		out, pan := captureReport(func() { node.VerifProcessInput(src, parser.Type{}, s.VM, true) })
		short := clipStr(src, 120)
		if pan != "" {
			return "size-limit-host-panic", fmt.Sprintf("statement %d `%s` (code %d, data %d entries): the interpreter aborted: %s", i, short, csLen, dsLen, pan), refusedAt, i
		}
		if isRefusal(out) && !strings.HasPrefix(want, "ERR") {
			if len(*s.CR.CS) != csLen || len(*s.CR.DS) != dsLen {
				return "refusal-leaves-code", fmt.Sprintf("statement %d `%s` was refused (%q) but code grew %d→%d, data %d→%d", i, short, out, csLen, len(*s.CR.CS), dsLen, len(*s.CR.DS)), refusedAt, i
			}
			if refusedAt < 0 {
				refusedAt = i
			}
			continue
		}
		if refusedAt >= 0 && strings.HasPrefix(out, "RUNTIME ERROR") && strings.Contains(src, "(") {
			continue // a call of a function whose definition was refused: a runtime error is the right answer
		}
		if want != "" && out != want {
			return "size-limit-wrong-result", fmt.Sprintf("statement %d `%s` (code %d, data %d entries before it): output %q, expected %q", i, short, csLen, dsLen, clipStr(out, 300), want), refusedAt, i
		}
	}
	return "", "", refusedAt, n
}

func c15SessionSpec(kind string, n int) (gen func(i int) (string, string), count int) {
	rep := func(s string, k int) string { return strings.Repeat(s, k) }
	switch kind {
	case "literals": // one constant per statement
		return func(i int) (string, string) { return fmt.Sprint(i), fmt.Sprintf("> %d\n", i) }, n
	case "literals-odd": // an extra constant first, so the boundary falls on the other parity
		return func(i int) (string, string) {
			if i == 0 {
				return "0 + 0", "> 0\n"
			}
			return fmt.Sprint(i), fmt.Sprintf("> %d\n", i)
		}, n
	case "names": // one name reference per statement
		return func(i int) (string, string) {
			if i == 0 {
				return "g = 5", "> 5\n"
			}
			return "g", "> 5\n"
		}, n
	case "two-constants":
		return func(i int) (string, string) { return fmt.Sprintf("%d + 1", i), fmt.Sprintf("> %d\n", i+1) }, (n + 1) / 2
	case "three-constants":
		return func(i int) (string, string) { return fmt.Sprintf("[%d, 0][0] + 1", i), fmt.Sprintf("> %d\n", i+1) }, (n + 2) / 3
	case "fn-body": // function body of about n instructions: the JMP over it
		return func(i int) (string, string) {
			if i == 0 {
				return "f = () -> {\nx = 1\n" + rep("x = x\n", n) + "}", "> function\n"
			}
			return "f()", "> 1\n"
		}, 3
	case "if-body":
		return func(i int) (string, string) {
			switch i {
			case 0:
				return "f = (c) -> {\nx = 1\nif c {\n" + rep("x = x\n", n) + "}\nx + 1\n}", "> function\n"
			case 1:
				return "f(true)", "> 2\n"
			}
			return "f(false)", "> 2\n"
		}, 3
	case "while-body":
		return func(i int) (string, string) {
			if i == 0 {
				return "f = (c) -> {\nx = 1\nwhile c {\n" + rep("x = x\n", n) + "c = false\n}\nx + 1\n}", "> function\n"
			}
			if i == 1 {
				return "f(true)", "> 2\n"
			}
			return "f(false)", "> 2\n"
		}, 3
	case "for-body":
		return func(i int) (string, string) {
			if i == 0 {
				return "f = () -> {\nx = 1\nfor i <- fromto(0, 2) {\n" + rep("x = x\n", n) + "}\nx + 1\n}", "> function\n"
			}
			return "f()", "> 2\n"
		}, 3
	case "params":
		return func(i int) (string, string) {
			if i == 0 {
				ps := make([]string, n)
				for k := range ps {
					ps[k] = letters(k)
				}
				return "f = (" + strings.Join(ps, ", ") + ") -> " + ps[n-1], "> function\n"
			}
			if i == 1 {
				return "g = (x) -> f(" + strings.TrimSuffix(rep("x, ", n), ", ") + ")", "> function\n"
			}
			return "g(7)", "> 7\n"
		}, 4
	case "global-first-mentioned-in-crossing-statement":
		// a top-level conditional of about n instructions that is the first statement to mention the global `total`;
		// whether it is accepted or refused, globals bound afterwards must be themselves
		return func(i int) (string, string) {
			switch i {
			case 0:
				return "if 1 < 2 {\ntotal = 1\n" + rep("total = total\n", n) + "}", ""
			case 1:
				return "limit = 100", "> 100\n"
			case 2:
				return "other = \"o\"", "> \"o\"\n"
			case 3:
				return "pad = 7 + 8 * 9", "> 79\n"
			case 4:
				return "total = 5", "> 5\n"
			case 5:
				return "[limit, total, other, pad]", "> [100, 5, o, 79]\n"
			case 6:
				return "total = total + limit", "> 105\n"
			}
			return "[limit, total, other, pad]", "> [100, 105, o, 79]\n"
		}, 8
	case "locals":
		return func(i int) (string, string) {
			if i == 0 {
				var b strings.Builder
				b.WriteString("f = () -> {\n" + letters(0) + " = 1\n")
				for k := 1; k < n; k++ {
					b.WriteString(letters(k) + " = " + letters(k-1) + "\n")
				}
				b.WriteString("}")
				return b.String(), "> function\n"
			}
			return "f()", "> 1\n"
		}, 3
	}
	panic("c15: session kind " + kind)
}

// c15Companion: one program text holds a small definition and, after it on the same line, the definition whose size
// crosses a limit (processInput compiles and runs the statements of an input one after the other). Whether the large
// one is accepted or refused, the small one and everything defined afterwards must work.
func c15Companion(kind string, n int) (sig, detail string, refusedAt, executed int) {
	g, _ := c15SessionSpec(kind, n)
	big, _ := g(0)
	s := impl.NewSession()
	refusedAt = -1
	run := func(src string) (string, string) {
		out, pan := captureReport(func() { node.VerifProcessInput(src, parser.Type{}, s.VM, true) })
		executed++
		return out, pan
	}
	// (two statements are only accepted in one input when they stand on the same line; the documented grammar wants a
	// line break between statements, which the read-eval loop turns into two inputs)
	out, pan := run("keep = () -> \"hello\" " + big)
	what := fmt.Sprintf("`keep = () -> \"hello\"` and, on the same line, a %s definition of size %d", kind, n)
	if pan != "" {
		return "size-limit-host-panic", what + ": the interpreter aborted: " + pan, refusedAt, executed
	}
	switch {
	case out == "> function\n> function\n":
	case strings.HasPrefix(out, "> function\nCompile error"):
		refusedAt = 0
	case strings.HasPrefix(out, "Parser:"):
		return "", "", -2, executed // not accepted as one input: nothing to check
	default:
		return "size-limit-wrong-result", what + fmt.Sprintf(": output %q, expected two definitions or one definition and a refusal", clipStr(out, 300)), refusedAt, executed
	}
	for i, st := range [][2]string{{"keep()", "> \"hello\"\n"}, {"other = () -> \"bye\"", "> function\n"}, {"keep()", "> \"hello\"\n"}, {"other()", "> \"bye\"\n"}, {"1 + 1", "> 2\n"}} {
		o, pan := run(st[0])
		if pan != "" {
			return "size-limit-host-panic", fmt.Sprintf("%s, then statement %d `%s`: the interpreter aborted: %s", what, i, st[0], pan), refusedAt, executed
		}
		if o != st[1] {
			return "size-limit-corrupts-session", fmt.Sprintf("%s (refused: %v), then `%s`: output %q, expected %q", what, refusedAt == 0, st[0], clipStr(o, 200), st[1]), refusedAt, executed
		}
	}
	return "", "", refusedAt, executed
}

func c15Exec(payload string) (string, string) {
	impl.Init()
	var p struct {
		Kind    string
		N       int
		Sel     int
		SrcKind uint64
		Addr    int
		Entry   int
		Params  int
		Locals  int
	}
	if err := json.Unmarshal([]byte(payload), &p); err != nil {
		return "harness:bad-payload", err.Error()
	}
	switch p.Kind {
	case "operand":
		s, d, _ := c15Operand(p.Sel, p.SrcKind, p.Addr)
		return s, d
	case "function":
		s, d, _ := c15Function(p.Entry, p.Params, p.Locals)
		return s, d
	}
	if strings.HasPrefix(p.Kind, "after-companion:") {
		s, d, _, _ := c15Companion(strings.TrimPrefix(p.Kind, "after-companion:"), p.N)
		return s, d
	}
	g, cnt := c15SessionSpec(p.Kind, p.N)
	s, d, _, _ := c15RunSession(g, cnt)
	return s, d
}

func init() {
	core.Register(&core.Check{
		ID:    "C15",
		Level: "exploration",
		Rule: "(i) every EncodeSrc(sel 0..2, kind 0..7, addr -65540..65540) and every New(op) for all 128 opcode values combined with every operand-kind triple and boundary address triple: decode(encode(x)) == x without touching other fields, or the encoder refuses; (ii) NewFunction/ToFunction over boundary entry points and counts; " +
			"(iii) size-crossing sessions on the real processInput path: one/two/three constants or one name reference per statement for every session length up to 33000 (quick) / 66000 (thorough) with every statement's echo checked, and function/if/while/for bodies, parameter lists and local counts of 2^15-2..2^15+2 (thorough: also 2^16-2..2^16+2), alone and as the second statement of an input whose first statement is a small definition: each statement must give its value or be refused with an error that leaves code and data untouched. distinct = distinct tuple / (session kind, size); non-trivial = tuples with a non-zero address or count and all sessions",
		Assumptions: []string{
			"a refusal is recognised as output whose first line contains 'error', is not an echo and not a runtime error report, with code and data segment lengths unchanged",
			"sizes beyond 2^16+2 are not covered",
		},
		Exec: c15Exec,
		Run:  c15Run,
	})
}

func c15Run(w *core.W) {
	impl.Init()
	w.NoCur = true
	// (i) operands — shard by address
	w.Family("operand-encoding")
	for addr := -65540; addr <= 65540; addr++ {
		if (addr+65540)%w.N != w.Shard {
			continue
		}
		for sel := 0; sel < 3; sel++ {
			for kind := uint64(0); kind < 8; kind++ {
				sig, detail, refused := c15Operand(sel, kind, addr)
				w.Evals(1)
				if refused {
					w.Count("refused_by_encoder", 1)
				} else if addr != 0 {
					w.NonTrivialN(1)
				}
				if sig != "" {
					b, _ := json.Marshal(map[string]any{"kind": "operand", "sel": sel, "srckind": kind, "addr": addr})
					w.Family("operand-encoding")
					w.Mine(string(b))
					w.Fail(string(b), sig, detail)
				}
			}
		}
	}
	// full instructions
	w.Family("instruction-encoding")
	bounds := []int{-32768, -1, 0, 1, 32767}
	for op := 0; op < 128; op++ {
		if !w.Mine(fmt.Sprint("op ", op)) {
			continue
		}
		base := bytecode.New(bytecode.OpCode(op))
		if base.OpCode() != bytecode.OpCode(op) || base.Src0() != 0 || base.Src1() != 0 || base.Src2() != 0 {
			w.Fail(fmt.Sprintf(`{"kind":"opcode","op":%d}`, op), "opcode-roundtrip", fmt.Sprintf("New(%d) decodes as %v", op, base.OpCode()))
			continue
		}
		bad := false
		for k := 0; k < 512 && !bad; k++ {
			k0, k1, k2 := uint64(k&7), uint64(k>>3&7), uint64(k>>6&7)
			for _, a0 := range bounds {
				for _, a1 := range bounds {
					for _, a2 := range bounds {
						e0, r0 := tryEncode(0, k0, a0)
						e1, r1 := tryEncode(1, k1, a1)
						e2, r2 := tryEncode(2, k2, a2)
						if r0 || r1 || r2 {
							continue
						}
						in := base | e0 | e1 | e2
						w.Evals(1)
						if in.OpCode() != bytecode.OpCode(op) || in.Src0() != k0 || in.Src1() != k1 || in.Src2() != k2 || in.Src0Addr() != a0 || in.Src1Addr() != a1 || in.Src2Addr() != a2 {
							w.Fail(fmt.Sprintf(`{"kind":"instr","op":%d}`, op), "instruction-roundtrip", fmt.Sprintf("op %d kinds %d,%d,%d addrs %d,%d,%d decodes as %v", op, k0, k1, k2, a0, a1, a2, in))
							bad = true
						}
					}
				}
			}
		}
		w.NonTrivial()
	}
	// (ii) function values
	w.Family("function-value")
	entries := []int{0, 1, 1 << 16, 1<<31 - 1, 1 << 31, 1<<32 - 1, 1 << 32, -1}
	counts := []int{0, 1, 255, 32767, 32768, 65535, 65536, 65537, -1}
	for _, e := range entries {
		for _, p := range counts {
			for _, l := range counts {
				b, _ := json.Marshal(map[string]any{"kind": "function", "entry": e, "params": p, "locals": l})
				if !w.Mine(string(b)) {
					continue
				}
				w.NonTrivial()
				sig, detail, refused := c15Function(e, p, l)
				if refused {
					w.Count("refused_by_encoder", 1)
				}
				if sig != "" {
					w.Fail(string(b), sig, detail)
				}
			}
		}
	}
	// (iii) sessions
	w.NoCur = false // sessions run the VM: record the current item
	w.Family("size-crossing-sessions")
	type job struct {
		kind string
		n    int
	}
	jobs := []job{}
	top := 33000
	if w.Thorough() {
		top = 66000
	}
	for _, k := range []string{"literals", "literals-odd", "names", "two-constants", "three-constants"} {
		jobs = append(jobs, job{k, top})
	}
	sizes := []int{32764, 32765, 32766, 32767, 32768, 32769, 32770}
	if w.Thorough() {
		sizes = append(sizes, 65533, 65534, 65535, 65536, 65537, 65538)
	}
	for _, k := range []string{"fn-body", "if-body", "while-body", "for-body", "params", "locals"} {
		for _, n := range sizes {
			jobs = append(jobs, job{k, n})
		}
	}
	for _, k := range []string{"fn-body", "if-body", "while-body", "params"} {
		for _, n := range sizes {
			jobs = append(jobs, job{"after-companion:" + k, n})
		}
	}
	for _, n := range sizes {
		jobs = append(jobs, job{"global-first-mentioned-in-crossing-statement", n})
	}
	for _, j := range jobs {
		b, _ := json.Marshal(c15Session{j.kind, j.n})
		if !w.Mine(string(b)) {
			continue
		}
		w.NonTrivial()
		var sig, detail string
		var refusedAt, executed int
		if strings.HasPrefix(j.kind, "after-companion:") {
			sig, detail, refusedAt, executed = c15Companion(strings.TrimPrefix(j.kind, "after-companion:"), j.n)
		} else {
			g, cnt := c15SessionSpec(j.kind, j.n)
			sig, detail, refusedAt, executed = c15RunSession(g, cnt)
		}
		w.Evals(int64(executed))
		w.Count("session_statements_executed", int64(executed))
		if refusedAt >= 0 {
			w.Count("sessions_refused_cleanly", 1)
		}
		if sig != "" {
			w.Fail(string(b), sig, detail)
		}
		if w.Expired("time budget reached in the size-crossing sessions") {
			return
		}
	}
}
