#!/bin/sh
# Stage 4: the survivors of stage 1 in the two biggest files (types/node/bytecoder.go, vm/vm.go) against the full list of
# related checks, 6 workers so that it can run in the background. Output: mutation/RESULTS-heavy2.tsv
export GOFLAGS=-mod=mod GOPROXY=off GOSUMDB=off GOTOOLCHAIN=local
export VERIF_WORKERS=${VERIF_WORKERS:-8} VERIF_BUDGET_S=${VERIF_BUDGET_S:-400}
(cd /verif/tools/mutate && go build -o /tmp/mutate4 .) || exit 2
out=${OUT:-/verif/mutation/RESULTS-heavy2.tsv}
touch $out
mkdir -p /tmp/mutseeds4; cd /verif
grep -E "bytecoder.go|vm/vm.go" /verif/mutation/survivors.tsv | while IFS="$(printf '\t')" read -r f k line kind desc; do
  grep -q "^$f	$k	" $out && continue
  case $f in
    vm/*) checks="C01 C02 C09 C08 C19 C17 C03 C05";;
    *) checks="C01 C12 C09 C05 C19";;
  esac
  id="m4-$(echo $f | tr '/.' '__')-$k"
  /tmp/mutate4 -k $k -o /tmp/mutseeds4/m.go /repo/$f
  (cd /repo && diff -u $f /tmp/mutseeds4/m.go | sed "1s|.*|--- a/$f|;2s|.*|+++ b/$f|") > /tmp/mutseeds4/$id.diff
  verdict="SURVIVED"
  for c in $checks; do
    r=$(SEED_SRC=/tmp/hfrozen SEED_PATCH=/tmp/mutseeds4/$id.diff ./seedmatrix.sh $id $c 2>&1 | tail -1)
    case "$r" in
      *DETECTED*) verdict="detected by $c"; break;;
      *harness-error*) verdict="harness-error in $c"; break;;
    esac
  done
  printf '%s\t%s\t%s\t%s\t%s\t%s\n' "$f" "$k" "$line" "$kind" "$desc" "$verdict" >> $out
done
echo ALLDONE >> $out
