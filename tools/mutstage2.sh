#!/bin/sh
# Stage 2 of the mutation experiment: run the checks related to the mutated file against every survivor of stage 1
# (first detection wins). Results: /verif/mutation/RESULTS.tsv  (file, k, line, kind, description, verdict).
export GOFLAGS=-mod=mod GOPROXY=off GOSUMDB=off GOTOOLCHAIN=local
(cd /verif/tools/mutate && go build -o /tmp/mutate .) || exit 2
out=${OUT:-/verif/mutation/RESULTS.tsv}
: > $out
mkdir -p /tmp/mutseeds; cd /verif
while IFS="$(printf '\t')" read -r f k line kind desc; do
  case $f in
    memory/*) checks="C18 C03 C04 C02 C08";;
    vm/*) checks="C01 C02 C09 C08 C19 C17 C03 C05";;
    types/node/bytecoder.go|types/node/hascaller.go|types/node/bc/*) checks="C01 C12 C09 C05 C19 C15 C02";;
    types/node/strewriter.go) checks="C04 C01 C18";;
    types/value/*) checks="C11 C10 C17 C15 C01";;
    types/bytecode/*) checks="C15 C19 C01";;
    lexer/*) checks="C14 C13 C06 C07";;
    combinator/*) checks="C13 C07 C06";;
    parser/*) checks="C07 C06 C01";;
    types/node/repl.go) checks="C16 C06 C08 C15 C10 C19";;
    builtin/*) checks="C17 C02";;
    *) checks="C01";;
  esac
  if [ -n "$FILTER" ] && ! echo "$f" | grep -Eq "$FILTER"; then continue; fi
  [ -n "$ONLYFIRST" ] && checks=$(echo $checks | cut -d' ' -f1-$ONLYFIRST)
  id="mut-$(echo $f | tr '/.' '__')-$k"
  /tmp/mutate -k $k -o /tmp/mutseeds/m.go /repo/$f
  (cd /repo && diff -u $f /tmp/mutseeds/m.go | sed "1s|.*|--- a/$f|;2s|.*|+++ b/$f|") > /tmp/mutseeds/$id.diff
  verdict="SURVIVED"
  for c in $checks; do
    r=$(SEED_PATCH=/tmp/mutseeds/$id.diff ./seedmatrix.sh $id $c 2>&1 | tail -1)
    case "$r" in
      *DETECTED*) verdict="detected by $c"; break;;
      *harness-error*) verdict="harness-error in $c"; break;;
    esac
  done
  printf '%s\t%s\t%s\t%s\t%s\t%s\n' "$f" "$k" "$line" "$kind" "$desc" "$verdict" >> $out
done < /verif/mutation/survivors.tsv
echo ALLDONE >> $out
