// Package impl drives the real calc pipeline built from /repo's working tree:
// parser.Parse → STRewrite → ByteCode → vm.Run, exactly the sequence
// processInput and TestCalc use, with stdout captured and host panics and
// fuel exhaustion turned into observations.
package impl

import (
	"fmt"
	"io"
	"log"
	"os"
	"runtime"
	"strconv"
	"strings"

	"github.com/paulsonkoly/calc/builtin"
	"github.com/paulsonkoly/calc/lexer"
	"github.com/paulsonkoly/calc/memory"
	"github.com/paulsonkoly/calc/parser"
	"github.com/paulsonkoly/calc/types/bytecode"
	"github.com/paulsonkoly/calc/types/compresult"
	"github.com/paulsonkoly/calc/types/dbginfo"
	"github.com/paulsonkoly/calc/types/node"
	"github.com/paulsonkoly/calc/types/value"
	"github.com/paulsonkoly/calc/vm"

	"vharness/internal/refsem"
)

var capFile *os.File
var realStdout *os.File

// Init redirects the process's stdout into a scratch file (the VM prints with
// fmt.Print) and silences the log package. Must be called once per worker.
func Init() {
	if capFile != nil {
		return
	}
	dir := "/dev/shm"
	if _, err := os.Stat(dir); err != nil {
		dir = ""
	}
	f, err := os.CreateTemp(dir, "vcheck-cap")
	if err != nil {
		panic(err)
	}
	os.Remove(f.Name())
	capFile = f
	realStdout = os.Stdout
	os.Stdout = f
	log.SetOutput(io.Discard)
	null, err := os.Open("/dev/null")
	if err == nil {
		os.Stdin = null
	}
}

// CaptureBegin empties the capture file.
func CaptureBegin() {
	capFile.Truncate(0)
	capFile.Seek(0, 0)
}

// CaptureEnd returns what was written to stdout since CaptureBegin.
func CaptureEnd() string {
	n, _ := capFile.Seek(0, 1)
	if n == 0 {
		return ""
	}
	b := make([]byte, n)
	capFile.ReadAt(b, 0)
	return string(b)
}

// FuelPanic is the sentinel the fuel hooks panic with.
type FuelPanic struct{ What string }

// Session is one interpreter instance.
type Session struct {
	M    *memory.Type
	CR   compresult.Type
	VM   *vm.Type
	Dead bool // a host panic or fuel exhaustion happened; the instance must be discarded
	// Step, when set, is called before every instruction.
	Step    func(v *vm.Type, info vm.VerifStepInfo)
	Opcodes map[bytecode.OpCode]int // opcodes executed (non-vacuity evidence); nil: not collected
	steps   int
	fuel    int
	LastIP  int
}

// NewSession builds a fresh VM with the built-ins loaded, like cmd/calc does.
func NewSession() *Session {
	m := memory.New()
	cs := []bytecode.Type{}
	ds := []value.Type{}
	dbg := make(dbginfo.Type)
	cr := compresult.Type{CS: &cs, DS: &ds, Dbg: &dbg}
	builtin.Load(cr)
	v := vm.New(m, cr)
	s := &Session{M: m, CR: cr, VM: v}
	s.install()
	v.Run(false) // define the built-ins
	return s
}

func (s *Session) install() {
	vm.VerifStep = func(v *vm.Type, info vm.VerifStepInfo) {
		s.steps++
		s.LastIP = info.IP
		if s.steps > s.fuel && s.fuel > 0 {
			panic(FuelPanic{"vm"})
		}
		if s.Opcodes != nil {
			s.Opcodes[(*s.CR.CS)[info.IP].OpCode()]++
		}
		if s.Step != nil {
			s.Step(v, info)
		}
	}
}

// SetFuel bounds the VM instructions of everything run on the session from now on (used when the real read-eval
// loop drives the VM, so that the harness never calls run itself). Exhaustion panics with FuelPanic.
func (s *Session) SetFuel(n int) { s.steps, s.fuel = 0, n }

// StmtResult is the observation of one top-level statement.
type StmtResult struct {
	Compiled   bool
	CompileErr string // RunInput only: processInput refused the statement
	Val        value.Type
	Canon      string // type-tagged rendering of Val
	Display    string
	Err        string // runtime error class ("" none)
	Out        string // output written before any error report
	Report     string // the runtime error report
	Panic      string // host panic message ("" none)
	PanicSite  string // innermost /repo function on the panicking stack
	FuelOut    bool
	Steps      int
}

// Observed renders the externally visible triple.
func (r StmtResult) Observed() string {
	switch {
	case r.Panic != "":
		return "PANIC " + r.Panic + " @" + r.PanicSite
	case r.FuelOut:
		return "FUEL"
	case r.Err != "":
		return "ERR " + r.Err + " | " + strconv.Quote(r.Out)
	}
	return r.Canon + " | " + strconv.Quote(r.Out)
}

// ToRef converts an implementation value into a reference-model value.
func ToRef(v value.Type) refsem.Val {
	switch v.VerifKind() {
	case "nil":
		return refsem.Nil
	case "int":
		i, _ := v.ToInt()
		return refsem.Int(i)
	case "float":
		f, err := strconv.ParseFloat(v.String(), 64)
		if err != nil {
			panic("impl: cannot read back float " + v.String())
		}
		return refsem.Float(f)
	case "bool":
		b, _ := v.ToBool()
		return refsem.Bool(b)
	case "string":
		s, _ := v.ToString()
		return refsem.Str(s)
	case "array":
		a, _ := v.ToArray()
		r := make([]refsem.Val, len(a))
		for i, e := range a {
			r[i] = ToRef(e)
		}
		return refsem.Val{K: refsem.KArr, A: r}
	case "function":
		return refsem.Val{K: refsem.KFn}
	}
	panic("impl: unknown kind")
}

// FromRef converts a reference value (without functions) to an implementation value.
func FromRef(v refsem.Val) value.Type {
	switch v.K {
	case refsem.KNil:
		return value.Nil
	case refsem.KInt:
		return value.NewInt(v.I)
	case refsem.KFloat:
		return value.NewFloat(v.F)
	case refsem.KBool:
		return value.NewBool(v.B)
	case refsem.KStr:
		return value.NewString(v.S)
	case refsem.KArr:
		a := make([]value.Type, len(v.A))
		for i, e := range v.A {
			a[i] = FromRef(e)
		}
		return value.NewArray(a)
	case refsem.KFn:
		return value.NewFunction(0, nil, 0, 0)
	}
	panic("impl: kind")
}

// PanicSite finds the innermost function of the calc module on the current
// (panicking) stack; call it from a deferred function.
func PanicSite() string {
	pcs := make([]uintptr, 64)
	n := runtime.Callers(2, pcs)
	frames := runtime.CallersFrames(pcs[:n])
	for {
		f, more := frames.Next()
		if strings.HasPrefix(f.Function, "github.com/paulsonkoly/calc/") {
			return strings.TrimPrefix(f.Function, "github.com/paulsonkoly/calc/")
		}
		if !more {
			break
		}
	}
	return "?"
}

func panicMessage(r any) string {
	s := fmt.Sprint(r)
	if e, ok := r.(error); ok {
		s = e.Error()
	}
	s = strings.TrimSpace(s)
	if i := strings.Index(s, "\n"); i >= 0 {
		s = s[:i]
	}
	return normPanic(s)
}

// normPanic removes run-specific numbers from a panic message.
func normPanic(s string) string {
	var b strings.Builder
	prevDigit := false
	for _, c := range s {
		if c >= '0' && c <= '9' {
			if !prevDigit {
				b.WriteByte('N')
			}
			prevDigit = true
			continue
		}
		prevDigit = false
		b.WriteRune(c)
	}
	return b.String()
}

// ErrClass reduces an error to its documented class.
func ErrClass(err error) string {
	if err == nil {
		return ""
	}
	e := err.Error()
	if strings.HasPrefix(e, "read error") {
		return "read error"
	}
	return e
}

// RunTree compiles and runs one parsed top-level statement (result used, as
// the REPL and TestCalc do). fuel bounds the number of VM instructions.
func (s *Session) RunTree(t node.Type, fuel int) (res StmtResult) {
	return s.run(t, fuel, true)
}

// RunTreeNoResult compiles with ByteCodeNoStck and runs discarding the result (file mode).
func (s *Session) RunTreeNoResult(t node.Type, fuel int) (res StmtResult) {
	return s.run(t, fuel, false)
}

// oneTree is a node.Parser that hands processInput an already parsed statement.
type oneTree struct{ t node.Type }

func (o oneTree) Parse(string) ([]node.Type, node.ParserError) { return []node.Type{o.t}, nil }

// RunInput runs one parsed top-level statement through the real processInput of the read-eval loop (symbol
// resolution, compile with its refusal of oversized programs, run, echo) in REPL mode. The value is not available on
// this path: Display is what the loop echoed, Err the class named by the report, CompileErr the refusal.
func (s *Session) RunInput(t node.Type, fuel int) (res StmtResult) {
	if s.Dead {
		panic("impl: session used after a host panic")
	}
	s.install()
	s.steps, s.fuel = 0, fuel
	CaptureBegin()
	defer func() {
		if r := recover(); r != nil {
			s.Dead = true
			if _, ok := r.(FuelPanic); ok {
				res.FuelOut = true
			} else {
				res.Panic = panicMessage(r)
				res.PanicSite = PanicSite()
			}
			res.Out = CaptureEnd()
		}
		res.Steps = s.steps
	}()
	node.VerifProcessInput("", oneTree{t}, s.VM, true)
	out := CaptureEnd()
	res.Compiled = true
	switch {
	case strings.HasPrefix(out, "Compile error:"):
		res.Compiled = false
		res.CompileErr = strings.TrimSpace(strings.TrimPrefix(strings.SplitN(out, "\n", 2)[0], "Compile error:"))
	case strings.Contains(out, "RUNTIME ERROR"):
		i := strings.Index(out, "RUNTIME ERROR")
		res.Report = out[i:]
		res.Out = out[:i]
		first := strings.SplitN(res.Report, "\n", 2)[0]
		res.Err = strings.TrimSpace(strings.TrimPrefix(first, "RUNTIME ERROR :"))
		if strings.HasPrefix(res.Err, "read error") {
			res.Err = "read error"
		}
	default:
		if i := strings.LastIndex(strings.TrimSuffix(out, "\n"), "\n> "); i >= 0 {
			res.Out, res.Display = out[:i+1], strings.TrimSuffix(out[i+3:], "\n")
		} else if strings.HasPrefix(out, "> ") {
			res.Display = strings.TrimSuffix(out[2:], "\n")
		} else {
			res.Out = out
		}
	}
	return res
}

func (s *Session) run(t node.Type, fuel int, used bool) (res StmtResult) {
	if s.Dead {
		panic("impl: session used after a host panic")
	}
	s.install()
	s.steps, s.fuel = 0, fuel
	CaptureBegin()
	defer func() {
		if r := recover(); r != nil {
			s.Dead = true
			if _, ok := r.(FuelPanic); ok {
				res.FuelOut = true
			} else {
				res.Panic = panicMessage(r)
				res.PanicSite = PanicSite()
			}
			res.Out = CaptureEnd()
		}
		res.Steps = s.steps
	}()
	t = t.STRewrite(node.SymTbl{})
	if used {
		node.ByteCode(t, s.CR)
	} else {
		node.ByteCodeNoStck(t, s.CR)
	}
	res.Compiled = true
	v, err := s.VM.Run(used)
	out := CaptureEnd()
	if i := strings.Index(out, "RUNTIME ERROR"); i >= 0 && err != nil {
		res.Report = out[i:]
		out = out[:i]
	}
	res.Out = out
	res.Err = ErrClass(err)
	res.Val = v
	if err == nil && used {
		res.Canon = ToRef(v).Canon()
		res.Display = v.Display()
	}
	return res
}

// ParseResult is the observation of one parser.Parse call.
type ParseResult struct {
	Trees     []node.Type
	Err       string // parse error message ("" none)
	From, To  int
	Panic     string
	PanicSite string
	FuelOut   string // "lexer" when the lexer fuel ran out
	Ticks     int
}

// Parse runs the real parser under lexer fuel (iterations of Lexer.Next's loop).
func Parse(src string, lexFuel int) (res ParseResult) {
	ticks := 0
	lexer.VerifTick = func() {
		ticks++
		if lexFuel > 0 && ticks > lexFuel {
			panic(FuelPanic{"lexer"})
		}
	}
	defer func() {
		lexer.VerifTick = nil
		res.Ticks = ticks
		if r := recover(); r != nil {
			if fp, ok := r.(FuelPanic); ok {
				res.FuelOut = fp.What
			} else {
				res.Panic = panicMessage(r)
				res.PanicSite = PanicSite()
			}
		}
	}()
	t, err := parser.Parse(src)
	res.Trees = t
	if err != nil {
		res.Err = err.Message()
		res.From, res.To = err.From(), err.To()
		if res.Err == "" {
			res.Err = "(empty message)"
		}
	}
	return res
}

// ParseCached is Parse with the default parser fuel behind a small direct-mapped cache of successful results, for the
// checks that execute sessions (their subject is what happens after the parser; the prelude statements of
// every session are the same few texts and parsing dominates the cost of a session). The parser is a pure function
// of the text (C07 and C13 check it directly, uncached) and nothing downstream modifies a tree: STRewrite builds a
// new one. Failures (errors, panics, fuel) are never cached.
func ParseCached(src string) ParseResult {
	h := fnv1a(src) % uint64(len(parseCache))
	if e := &parseCache[h]; e.ok && e.src == src {
		return e.res
	}
	res := Parse(src, ParseFuel(len(src)))
	if res.Err == "" && res.Panic == "" && res.FuelOut == "" && len(src) <= 400 {
		parseCache[h] = parseEntry{src: src, res: res, ok: true}
	}
	return res
}

type parseEntry struct {
	src string
	res ParseResult
	ok  bool
}

var parseCache [8192]parseEntry

func fnv1a(s string) uint64 {
	h := uint64(14695981039346656037)
	for i := 0; i < len(s); i++ {
		h ^= uint64(s[i])
		h *= 1099511628211
	}
	return h
}

// DefaultLexFuel is the lexer budget for an input of n bytes: the scanning
// loop consumes one rune per iteration except at end of input, and the parser
// re-lexes nothing (tokens are cached), so 4*(n+4) separates slow from never.
func DefaultLexFuel(n int) int { return 4 * (n + 4) }

// ParseFuel is the budget of parser.Parse for an input of n bytes, counted in
// lexer loop iterations plus TLexer.Next and TLexer.Snapshot calls. Measured
// on the pinned grammar the count is linear, at most about 50 per byte
// (deeply nested brackets); 2000 per byte only has to separate slow from never.
func ParseFuel(n int) int { return 2000 * (n + 8) }
