#!/usr/bin/env python3
"""Regenerates MANIFEST.json from the table below (kept in one place so it stays valid)."""
import json, subprocess

BASELINE = json.load(open('/root/.vp/BASELINE.json'))['cmd']

CHECKS = {
 "C19": dict(level="exploration", design="DESIGN.md §4 C19",
   text="For every program of the product raising operation x operand values (including values longer than the 20-character abbreviation, arrays, functions, multi-line strings) x failure site (top level, call depth 1..4 with reassigned parameters, through function-valued parameters and closures, loop bodies, generators, nested generators, zips, built-ins), and for every failing member of the operand-source x statement-context product, the statements are run through the real processInput of the read-eval loop and the captured report is parsed and compared with the reference model's record of the failure: class, the single marked instruction (which must be the one the step hook saw last and belong to the failing operation's family), operand values in source order, and per context the active calls innermost first with call-site names and current parameter values. Also: operand and parameter values around the 20-byte display limit (incl. multi-byte text), and the bytes the host allocates while a report with a 2^8..2^14-element operand is produced (no clock).",
   note="Trusts the reference model's failure record (operation, operands, active calls per coroutine) and the report grammar read off the documented sample; context addresses are not compared.",
   technique="bounded exhaustive enumeration of failing programs with the report text parsed and compared against an executable reference model's failure trace"),
 "C17": dict(level="exploration", design="DESIGN.md §4 C17",
   text="The contracts of the eight built-ins are checked on every element of finite argument alphabets: toa against write for 57 values of every kind and nesting, aton(toa(n)) == n for boundary ints and 210 finite floats, fromto over all pairs in -3..3 and at both ends of the int range, elems/indices (alone and zipped) over every array and string of length 0..4 (also after the program rebinds another built-in's name), wrong kinds and arities, fromto/elems/indices running three and four at once after a user generator over a built-in one was abandoned and its contexts reused, and - through the built binary - every stdin of up to 3 lines (with and without final line break) against 0..4 read() calls in -eval and file mode, plus exit() with valid and invalid arguments. Also 3..1500 lines of 1..5000 characters read into an array and written afterwards (a kept line never changes).",
   note="Expected results are computed by the reference model's value rendering and the stated contracts; argument values outside the alphabets are not covered.",
   technique="exhaustive enumeration of finite argument and input-history alphabets against the stated contracts"),
 "C16": dict(level="model_checking", design="DESIGN.md §4 C16",
   text="(a) Explicit-state search over every sequence of up to 4 (5) script lines from a 22-line alphabet (block openers/closers/else, array literals and strings split over lines, strings and comments containing every delimiter, escaped quotes and backslashes, blank lines) fed to the real read-eval loop through the real file reader (with and without final newline) and a REPL-style line reader with a recording parser; the inputs handed to the parser must equal, token for token, the statements a lexer-aware splitter finds. (b) Every script of up to 2 (3) statements from a 43-statement alphabet (including lines holding two statements) run through the built binary in -eval (single statements), piped-REPL and file mode; each mode's output must equal what in-process statement-by-statement execution predicts. (c) Inputs no mode can execute (a statement too large for the instruction format; inputs that end inside an open construct) in all four modes: no abort, the same diagnostic as -eval, the surrounding statements run.",
   note="The splitter model and the in-process expected output are harness side; ill-formed line sequences are skipped and counted; runtime error reports are compared on their first line.",
   technique="explicit-state exploration of line sequences on the real read-eval loop against a splitter model + exhaustive script x run-mode enumeration on the built binary"),
 "C18": dict(level="model_checking", design="DESIGN.md §4 C18",
   text="Explicit-state breadth-first search over every legal sequence (depth 5, thorough 6) of 37 memory operations as the VM issues them - push bursts crossing every 128-slot boundary, pops, frame capture, calls with narrow and wide frames and old/new captured frames, returns, local and global writes, forking a context into a fresh or a recycled memory, switching, destroying - executed on the real memory.Type by replaying each path on a fresh instance; after every transition the whole live content of every memory, the accessor views and every captured frame are compared with a list-of-frames model. Plus program-level families compared with the reference model (slot allocation of every order of variable-introducing constructs; closures created in generator contexts at nesting 0..2, abandoned / finished / ended by return, read again after further loops recycled the contexts; names of an outer function two levels in; captured variables updated after stack reallocation in sessions whose earlier statement failed 0..60 calls deep) and recursion to depth 100000.",
   note="State key = bookkeeping only (sound by data independence); bounded to 3 live memories, 3 frames and 3 captured frames per state; sequences longer than the depth bound are not covered.",
   technique="explicit-state BFS over the real memory object's operations (path replay) against a reference model, with canonical state deduplication"),
 "C03": dict(level="exploration", design="DESIGN.md §4 C03",
   text="Differential purity check on the real VM: each of a set of side-effect-free functions (directed shapes around closures, captured-variable updates after stack growth, loops, generators, wide frames at every allocation boundary, plus every expression body of up to 2 (3) nodes) is called in 21 dynamic contexts (including depth sweeps 0..399 and generators run after other loops of the same statement) after every history of up to 2 (3) steps from a 10-step alphabet; each observation must equal what the same call gives as the only statement of a fresh session, which is anchored once per function in the reference model.",
   note="Trusts the reference model only for the baseline of each function; all other comparisons are between runs of the real VM. Functions, contexts and histories outside the alphabets are not covered.",
   technique="bounded exhaustive enumeration of function x context x history with a differential oracle on the real code"),
 "C04": dict(level="exploration", design="DESIGN.md §4 C04",
   text="Every point of a seven-dimensional product of scope skeletons (shadowed global or not, 0/1/199 other locals, where the variable is defined, 11 inner-function shapes, updates after capture with and without stack growth, six ways the inner function is used or escapes, stack churn before an escaped function is called) plus recursive definers at depth 3/50/200 is executed with unique tags on every write; every read must hit the binding the by-name rules predict, and globals, caller variables and arguments are rendered before and after every call. A differential family checks that every activation starts with empty variables: functions with 0..3 parameters and 1..4 conditionally assigned variables, called directly / nested / in a loop / in a generator after six kinds of polluting statements, must answer as in a fresh session. Directed families: for statements whose variables are parameters, earlier locals or new names; closures handed out by generators whose loop is abandoned; the stack-growing skeletons after a failed statement; and six directed programs (closures written in an iterator expression; names read before the text assigns them) whose failures are listed in known_findings.json and printed as KNOWN-FINDING lines.",
   note="Trusts the reference model's scoping rules (own, one-level captured, global); programs whose reads are ambiguous between the lexical and the dynamic reading (D-use-before-def) are skipped and counted.",
   technique="exhaustive enumeration of a finite product of scope skeletons with tagged writes against an executable reference model"),
 "C08": dict(level="model_checking", design="DESIGN.md §4 C08",
   text="Explicit-state search over session histories: every sequence of up to 3 (4) statements from an alphabet of 47 (good statements; lexer, parser and unbalanced-input errors; every runtime error class at top level, at depth, in loop bodies, in suspended and nested generators, in a zip, in closures, with partial global effects; a top-level return out of nested loops) is replayed on a fresh real VM and followed by 15 observers; each statement is compared with the reference model, the machine must be at rest after every statement (hooks), and the observers must answer exactly as in the failure-free twin session holding the same globals.",
   note="States (reference global store + machine state) are reported for coverage; every history is executed in full on the real VM (traces_validated_against_impl = histories). Longer histories and other failing statements are not covered.",
   technique="explicit-state exploration of statement histories on the real session object with a reference model, hook invariants and a differential failure-free twin"),
 "C10": dict(level="model_checking", design="DESIGN.md §4 C10",
   text="Explicit-state search over every sequence of up to 3 (4) of 57 array/string operations (arrays of 33-40 elements, literals whose later element re-enters the same literal through recursion or a suspended generator, one array extended under two names inside a function, two statements ending in a runtime error after redefining functions that hold literals) on seven globals (literals at top level / in functions / in loops, all slices, concatenations of slices, nested arrays, passing, iterating, capture in closures and generators); after every operation an observer evaluating every variable, the accumulated earlier results, a literal-returning function and a closure is compared between the real VM and a reference model that copies always. Sequences of length <= 2 and all sequences containing a failing statement are also typed into the real read-eval loop, whose echo of every observer must equal the in-process value. States are (renderings, len/cap, backing-array sharing relation) read through the value hook. Directed families against the same reference: literal shapes (0..10 leading constants, computed tails) evaluated repeatedly, and every concatenation chain of 3 and 4 operands over literals, views, empty arrays, call results and 33..41-element arrays.",
   note="distinct_nontrivial counts sequences after which two live arrays really share a backing array with spare capacity; longer sequences and other operations are not covered.",
   technique="explicit-state exploration of operation sequences on the real VM against a copying reference model, with sharing measured through a hook"),
 "C09": dict(level="exploration", design="DESIGN.md §4 C09",
   text="Through read-only hooks the machine state is read after every statement of (a) every statement form (including every logic operator over every pair of operand sources and truth values) in every statement context and the generator/body/placement loops (sp, frame depth, closure depth, live contexts, main ip must be back at rest) and (b) every statement form as body of every loop driver run with 5 and with 300 (600) iterations, where peak operand-stack use of main and generator contexts, peak live contexts and stack length must not grow with the iteration count.",
   note="Observation is through the verif hooks (memory.VerifState, vm.VerifLiveContexts, step callback); sessions that crash or exhaust fuel are left to C05.",
   technique="bounded exhaustive enumeration of statement forms x contexts x loop drivers with state invariants read through hooks and a differential iteration-count oracle"),
 "C12": dict(level="exploration", design="DESIGN.md §4 C12",
   text="Differential check on the real pipeline only: for every core expression of up to 3 (4) nodes and every value kind, two programs that differ only in a placement selecting another code-generation strategy (used/discarded, function tail/non-tail/top level, loop body, operand depth 1..3, call argument, array element, assignment, increment forms, common operand shortcut, negated conditions, self-increments by other steps than the int 1 with the result divided to tell int from float, every comparison of 8 operands incl. NaN under a negation in 8 placements, and every non-boolean condition in every statement context) must produce the same output, error class and value.",
   note="No reference model is involved; pairs are constructed so that the language rules make both members equivalent (tolerance T-nil-bool for nil in boolean positions).",
   technique="bounded exhaustive enumeration of expression x placement pairs with a differential oracle between two runs of the real code"),
 "C02": dict(level="exploration", design="DESIGN.md §4 C02",
   text="Every loop of the product iterator expression (closure of 11 base generators under map/filter/take/chain) x body step from the collision alphabet (one per resource shared between generator and body contexts) x placement (top level, call depth 1..5, recursion, inside another loop, inside another generator) x preceding history, plus all 2-iterator zips and 3- and 4-iterator zips over the base generators, is executed on the real VM and on the coroutine reference model; bound values, interleaved output, loop results and session values must agree.",
   note="Trusts the reference model's coroutine reading of for/yield (calibrated on all TestCalc iterator rows and the Readme examples); generator-side reads the description leaves open (D-fork) are skipped.",
   technique="bounded exhaustive enumeration of generator/body/placement/history combinations with conformance checking against an executable reference model"),
 "C05": dict(level="exploration", design="DESIGN.md §4 C05",
   text="Totality of compile+run on the real pipeline over unfiltered program families: the adversarial operator/operand/condition/callee/arity product at operand depth 0..2, every statement of up to 4 (5) nodes over an adversarial leaf alphabet at top level and as a function body, the operand-source x context products with the full operand list, the generator families, and every token sequence of length <= 4 (5) the parser accepts. Any host panic, undocumented error class or (in the described domain) non-termination is a violation. Also every parameter list of length <= 3 over two names (repeated names included) x 14 bodies x every arity, and five 33000-statement sessions that cross the data-segment limit.",
   note="Go panics are recovered in-process and attributed by call site; fatal runtime errors kill a worker and are attributed through its progress record. Termination is judged with instruction fuel derived from the reference model's step count.",
   technique="bounded exhaustive enumeration of accepted programs under instruction fuel with a crash/termination oracle"),
 "C15": dict(level="exploration", design="DESIGN.md §4 C15",
   text="Every operand encoding (3 selectors x 8 kinds x every address from -65540 to 65540), every opcode value combined with every kind triple and boundary address triple, and function values at the boundaries of their fields are encoded and decoded on the real packages; sessions and programs whose constants, name references, jump distances, parameter and local counts cross 2^15 (thorough: 2^16) are run statement by statement through the real processInput path, where each statement must give its value or be refused cleanly; also with a small definition earlier on the same line, and with a global first mentioned in the refused statement and other globals bound afterwards.",
   note="Sizes beyond 2^16+2 are not covered; a refusal is recognised by its shape (error line, segments unchanged), not by a fixed message.",
   technique="exhaustive enumeration of the encoder input space + boundary-crossing session families on the real read-eval path"),
 "C07": dict(level="exploration", design="DESIGN.md §4 C07",
   text="Every expression tree of depth <= 2 over the full operator set, every statement form in every body position to nesting 2 (dangling-else shapes included) and, in the thorough tier, depth-3 trees over one operator per precedence level are written as text by the documented rules in four parenthesis/brace styles and every single-site layout deviation; the real parser must return exactly the tree each text was written from.",
   note="Trusts the harness printer as the statement of the documented grammar; deeper trees and multi-site layout combinations are not covered.",
   technique="bounded exhaustive enumeration of syntax trees x layouts with a print/parse round-trip oracle"),
 "C06": dict(level="exploration", design="DESIGN.md §4 C06",
   text="Every string over a 16-symbol alphabet up to length 5/6, every token sequence over a 27-token alphabet up to length 4/5 and the scaling families (literals of 1..400 digits, bracket nesting to 10000, a program truncated at every position and continued by unterminated strings, comments, escapes and invalid bytes) are parsed by the real front end under lexer+parser fuel; error spans, the error display and the absence of any execution on error are checked on every rejected input; errors at every distance from both ends of lines of 60..1000 characters; the inputs are also typed line by line into the real read-eval loop (parse-only parser, under fuel), which must come back and hand the following line to the parser; and, through the built binary in -eval, file and piped-REPL mode, a syntax or lexical error must neither abort, hang nor swallow the statement that follows it.",
   note="Fuel (loop iterations of the lexer plus TLexer.Next/Snapshot calls, 2000 per byte against a measured maximum of about 50) stands in for 'finite time'; characters outside the alphabet and longer inputs are not covered.",
   technique="exhaustive enumeration of all strings / token sequences up to a length bound under step fuel, with direct invariant checks on every result"),
 "C01": dict(level="exploration", design="DESIGN.md §4 C01",
   text="Bounded-exhaustive conformance of the real pipeline (parser, symbol rewriter, bytecode compiler, VM built from the working tree) against an executable reference model of the documented language: every program of the operand-source x statement-context and operand-source x expression-context products (about a million sessions in the quick tier) is executed on a fresh VM and on the model and compared on value, output and error class, statement by statement; further families: statements by size, the statement-position product, generator loops, scope skeletons with three-level nesting, and every comparison (plain, negated, doubly negated) over NaN/Inf/-0.0/int-float pairs in twelve value positions. Also one value used as the operand of two further operations (F7) and all pairwise compositions of the 22 expression contexts over six temp-register shapes (F8).",
   note="Trusts the reference model refsem (self-tested against every TestCalc row and Readme example before each run) and the domain restriction stated in DESIGN.md §3.3; programs outside the enumerated families and bounds are not covered.",
   technique="bounded exhaustive enumeration of programs (products of finite alphabets) with conformance checking against an executable reference model"),
 "C13": dict(level="model_checking", design="DESIGN.md §4 C13",
   text="(a) Explicit-state breadth-first search over every sequence of Next/Snapshot/Rollback/Commit on the real transactional lexer (every path executed; states = distinct readp, writep and snapshot stack, counted, not used for pruning), each transition compared with a fresh plain scan; (b) every combinator term to depth 2 over Accept/Ok/And/Seq/OneOf/Choose/Any/SeparatedBy/SurroundedBy/Assert/Not/Drop/Fmap run on all 121 token streams of length <= 4 over both the real TLexer and a list lexer and compared with an ordered-choice recogniser on accept/reject, results and input position.",
   note="The recogniser (harness side) is the model; every model behaviour is replayed on the real combinators (traces_validated_against_impl). Terms deeper than the bound and streams longer than 4 tokens are not covered.",
   technique="explicit-state BFS over the real TLexer's transition function + exhaustive term x stream enumeration against an ordered-choice recogniser"),
 "C14": dict(level="exploration", design="DESIGN.md §4 C14",
   text="Every string over an 18-character alphabet (digits, letters, operator and bracket characters, quote, backslash, dot, blank, tab, newline, semicolon) up to length 5 (quick) / 6 (thorough) and every string of up to 4 (5) characters over all operator and punctuation characters is tokenised by the real lexer and by an independent tokenizer written from the Readme's token regexes; spans, gaps, end markers and every single-gap layout variation are checked on each accepted string.",
   note="Trusts the independent tokenizer (harness side); characters outside the alphabet and longer strings are not covered; termination is C06's subject (fuel-exhausted inputs are skipped and counted).",
   technique="exhaustive enumeration of all strings up to a length bound against an independent specification tokenizer + invariant checking"),
 "C11": dict(level="exploration", design="DESIGN.md §4 C11",
   text="Every operand tuple of a 46-value alphabet (all kinds, boundary ints, ±0/±Inf/NaN, nested arrays, functions) for every operator method and every container/index combination around the bounds is executed on the real value package and compared with the specification table written from Readme.md; the stated laws are evaluated on every tuple; every binary tuple is also evaluated through compiled programs (operands bound to globals; plain, negated, doubly negated, inside an array literal, the same variable on both sides) and the index/slice forms and slice laws are run as program text with bounds computed by calls. The space is finite and enumerated completely in both tiers.",
   note="Trusts the harness-side specification table (refsem/value.go), which is itself cross-checked against all TestCalc rows; operand values outside the alphabet are not covered.",
   technique="bounded exhaustive enumeration of operand tuples against an executable specification + law checking"),
}

PROPS = [json.loads(l)['id'] for l in open('/verif/properties.jsonl')]
NOT_YET = "not claimed"

def main():
    hooks = subprocess.run(['git','-C','/repo','log','--format=%h %s'],capture_output=True,text=True).stdout.splitlines()
    hook_commits = [l.split()[0] for l in hooks if l.split(' ',1)[1].startswith('verif hook:')]
    m = {
     "version": 1,
     "setup_cmd": "./setup.sh",
     "hooks": {
       "guard": "verif",
       "enable": "go build -tags verif (run.sh builds /verif/harness, whose go.mod replaces github.com/paulsonkoly/calc with /repo, with -tags verif)",
       "baseline_off_cmd": BASELINE,
       "source_commits": hook_commits,
       "add_only": True
     },
     "engines": [
       {"name": "vcheck", "path": "harness/cmd/vcheck", "serves_properties": sorted(CHECKS), "kind_free_text": "hand-written bounded-exhaustive explorer: canonical enumerators, 16 sharded worker processes driving the real pipeline built from /repo's working tree, executable reference model (refsem), explicit-state BFS by path replay, shrinker, known-finding bucketing, evidence writer"}
     ],
     "checks": [],
     "not_applicable": [],
     "notes": "All checks: ./run.sh <ID> quick|thorough rebuilds the harness against /repo's working tree with -tags verif. Exit 0 = held on everything explored, 1 = VIOLATION line(s), 2 = harness error (build failure etc.). Known findings: known_findings.json."
    }
    for pid in PROPS:
        if pid in CHECKS:
            c = CHECKS[pid]
            m["checks"].append({
              "property_id": pid,
              "quick_cmd": f"./run.sh {pid} quick",
              "thorough_cmd": f"./run.sh {pid} thorough",
              "evidence_file": f"/verif/evidence/{pid}.json",
              "replay_cmd_template": "./run.sh replay {path}",
              "engine": "vcheck",
              "level_claimed": {"category": c["level"], "text": c["text"], "design_ref": c["design"]},
              "level_note": c["note"],
              "technique": c["technique"],
            })
        else:
            m["not_applicable"].append({"property_id": pid, "reason": NOT_YET})
    json.dump(m, open('/verif/MANIFEST.json','w'), indent=1)
    print("checks:", [c["property_id"] for c in m["checks"]])

main()
