package checks

import (
	"encoding/json"
	"fmt"
	"regexp"
	"runtime"
	"strconv"
	"strings"

	"vharness/internal/core"
	"vharness/internal/gen"
	"vharness/internal/impl"
	"vharness/internal/refsem"
)

// C19: runtime error reports point at the real failure.

type repInstr struct {
	IP       int
	Mnemonic string
	Marked   bool
	Operands string // text after ';' on the marked line
}

type repFrame struct {
	IP   int
	Name string
	Args []string
}

type parsedReport struct {
	Class    string
	Instrs   []repInstr
	Contexts [][]repFrame
}

var (
	reClass = regexp.MustCompile(`^RUNTIME ERROR : (.*)$`)
	reInstr = regexp.MustCompile(`^(    |--> )(\d+): 0X[0-9A-F]{16} : ([A-Z0-9]+) ?(.*)$`)
	reCtx   = regexp.MustCompile(`^memory context (0x[0-9a-f]+|%!p\(.*\)|.*)$`)
	reFrame = regexp.MustCompile(`^IP: (\d+) ([a-z]*)\(\) args: (.*)$`)
	reArg   = regexp.MustCompile(`arg\[(\d+)\]: `)
)

func parseReport(rep string) (p parsedReport, err string) {
	lines := strings.Split(strings.TrimRight(rep, "\n"), "\n")
	if len(lines) == 0 {
		return p, "empty report"
	}
	m := reClass.FindStringSubmatch(lines[0])
	if m == nil {
		return p, "first line is not `RUNTIME ERROR : <class>`: " + lines[0]
	}
	p.Class = m[1]
	i := 1
	// a value printed in the operand list may contain line breaks (a string): join until the next instruction / context line
	for i < len(lines) {
		l := lines[i]
		if im := reInstr.FindStringSubmatch(l); im != nil {
			ip, _ := strconv.Atoi(im[2])
			in := repInstr{IP: ip, Mnemonic: im[3], Marked: im[1] == "--> "}
			rest := im[4]
			if in.Marked {
				if k := strings.Index(rest, ";"); k >= 0 {
					in.Operands = strings.TrimSpace(rest[k+1:])
					// continuation lines of a multi-line operand value
					for i+1 < len(lines) && !reInstr.MatchString(lines[i+1]) && !strings.HasPrefix(lines[i+1], "memory context ") {
						i++
						in.Operands += "\n" + lines[i]
					}
				} else {
					return p, "the marked line has no `;` operand list: " + l
				}
			}
			p.Instrs = append(p.Instrs, in)
			i++
			continue
		}
		break
	}
	for i < len(lines) {
		if !strings.HasPrefix(lines[i], "memory context ") {
			return p, fmt.Sprintf("line %d is neither an instruction nor a memory context: %q", i, lines[i])
		}
		i++
		if i >= len(lines) || !strings.HasPrefix(lines[i], "= stack =") {
			return p, "memory context without stack header"
		}
		i++
		frames := []repFrame{}
		for i < len(lines) && !strings.HasPrefix(lines[i], "=====") {
			l := lines[i]
			// frames may span lines when an argument contains a line break
			for i+1 < len(lines) && !strings.HasPrefix(lines[i+1], "IP: ") && !strings.HasPrefix(lines[i+1], "=====") {
				i++
				l += "\n" + lines[i]
			}
			if strings.Contains(l, "giving up") {
				return p, "backtrace gave up: " + l
			}
			fm := reFrame.FindStringSubmatch(strings.SplitN(l, "\n", 2)[0])
			if fm == nil {
				return p, "not a frame line: " + l
			}
			ip, _ := strconv.Atoi(fm[1])
			fr := repFrame{IP: ip, Name: fm[2]}
			argText := l[strings.Index(l, "args: ")+6:]
			idx := reArg.FindAllStringIndex(argText, -1)
			for k, loc := range idx {
				end := len(argText)
				if k+1 < len(idx) {
					end = idx[k+1][0] - 1 // separated by one blank
				}
				if end < loc[1] {
					end = loc[1]
				}
				fr.Args = append(fr.Args, argText[loc[1]:end])
			}
			frames = append(frames, fr)
			i++
		}
		if i >= len(lines) {
			return p, "unterminated stack listing"
		}
		i++
		p.Contexts = append(p.Contexts, frames)
	}
	return p, ""
}

// mnemonics each failing operation of the reference may show as
func familyOf(op string) []string {
	switch op {
	case "binop:+":
		return []string{"ADD", "ADDTMP", "INC"}
	case "binop:-":
		return []string{"SUB", "SUBTMP"}
	case "binop:*":
		return []string{"MUL", "MULTMP"}
	case "binop:/":
		return []string{"DIV", "DIVTMP"}
	case "binop:%":
		return []string{"MOD", "MODTMP"}
	case "binop:&", "binop:&&":
		return []string{"AND", "ANDTMP"}
	case "binop:|", "binop:||":
		return []string{"OR", "ORTMP"}
	case "binop:<":
		return []string{"LT", "LTTMP"}
	case "binop:>":
		return []string{"GT", "GTTMP"}
	case "binop:<=":
		return []string{"LE", "LETMP"}
	case "binop:>=":
		return []string{"GE", "GETMP"}
	case "binop:==":
		return []string{"EQ", "EQTMP"}
	case "binop:!=":
		return []string{"NE", "NETMP"}
	case "binop:<<":
		return []string{"LSH", "LSHTMP"}
	case "binop:>>":
		return []string{"RSH", "RSHTMP"}
	case "unop:!":
		return []string{"NOT", "NOTTMP", "JMPF", "JMPT"}
	case "unop:#":
		return []string{"LEN", "LENTMP"}
	case "unop:~":
		return []string{"FLIP", "FLIPTMP"}
	case "index1":
		return []string{"IX1"}
	case "index2":
		return []string{"IX2"}
	case "call":
		return []string{"CALL"}
	case "cond":
		return []string{"JMPF", "JMPT"}
	case "assign":
		return []string{"MOV"}
	case "aton":
		return []string{"ATON"}
	case "read":
		return []string{"READ"}
	case "exit":
		return []string{"EXIT"}
	}
	return nil
}

type c19Item struct {
	Stmts []string `json:"stmts"`
}

func c19Judge(stmts []string) (sig, detail string, skipped bool) {
	ref := refsem.NewInterp()
	s := impl.NewSession()
	refused, failed := 0, 0
	for i, src := range stmts {
		pr := impl.ParseCached(src)
		if pr.Err != "" || pr.Panic != "" || pr.FuelOut != "" {
			return "harness:generated-program-does-not-parse", src + ": " + pr.Err + pr.Panic, false
		}
		for _, t := range pr.Trees {
			if refsem.UseBeforeDef(t) {
				return "", "", true
			}
			rr := ref.RunStmt(t, 500000)
			if rr.FuelOut || rr.Exit || len(rr.Dom) > 0 {
				return "", "", true
			}
			// through the real processInput of the read-eval loop: the reports a user sees are produced on this path
			ir := s.RunInput(t, 64*rr.Steps+20000)
			where := fmt.Sprintf("statement %d `%s`", i, clipStr(src, 200))
			if ir.CompileErr != "" {
				if rr.Err == "" {
					return "", "", true // a refused statement with an effect in the model: not a session this check can follow
				}
				refused++
				_ = refused
				continue // refused as too large (the site after-a-refused-oversized-statement); it fails in the model too, without effect
			}
			if strings.HasPrefix(src, "huge = [") {
				return "harness:oversized-statement-was-not-refused", where + ": " + ir.Observed(), false
			}
			if ir.Panic != "" {
				if strings.Contains(ir.PanicSite, "dumpStack") || strings.Contains(ir.PanicSite, "DumpStack") || strings.Contains(ir.PanicSite, "Abbrev") {
					return "report-panics@" + ir.PanicSite, where + ": producing the report failed: " + ir.Panic, false
				}
				return "", "", true // crashes elsewhere are C05's subject
			}
			if ir.FuelOut {
				return "", "", true
			}
			if (ir.Err == "") != (rr.Err == "") {
				return "", "", true // disagreement about failing at all is C01's subject
			}
			if ir.Err == "" {
				continue
			}
			// both failed: judge the report
			p, perr := parseReport(ir.Report)
			if perr != "" {
				return "report-malformed", fmt.Sprintf("%s: %s; report:\n%s", where, perr, clipStr(ir.Report, 900)), false
			}
			if p.Class != rr.Err && !(strings.HasPrefix(p.Class, "read error") && rr.Err == refsem.ErrRead) {
				if !(rr.Info.Op == "cond" || rr.Info.Op == "unop:!") { // T-nil-bool
					return "report-class", fmt.Sprintf("%s: report says %q, the failure is %q", where, p.Class, rr.Err), false
				}
			}
			var marked *repInstr
			nm := 0
			for k := range p.Instrs {
				if p.Instrs[k].Marked {
					marked = &p.Instrs[k]
					nm++
				}
			}
			if nm != 1 {
				return "report-marked-line", fmt.Sprintf("%s: %d marked instructions", where, nm), false
			}
			if marked.IP != s.LastIP {
				return "report-wrong-instruction", fmt.Sprintf("%s: the report marks instruction %d, the VM failed at %d", where, marked.IP, s.LastIP), false
			}
			fam := familyOf(rr.Info.Op)
			okFam := false
			for _, m := range fam {
				if m == marked.Mnemonic {
					okFam = true
				}
			}
			if !okFam {
				return "report-wrong-operation:" + rr.Info.Op, fmt.Sprintf("%s: the failing operation is %s, the report marks a %s instruction", where, rr.Info.Op, marked.Mnemonic), false
			}
			// operand values, source order, abbreviated
			ops := rr.Info.Operands
			if marked.Mnemonic == "INC" && len(ops) == 2 {
				// x + 1 / 1 + x compiled to an increment of x: its single operand is the variable
				if ops[0].K == refsem.KInt && ops[0].I == 1 && !(ops[1].K == refsem.KInt && ops[1].I == 1) {
					ops = ops[1:]
				} else {
					ops = ops[:1]
				}
			}
			if (marked.Mnemonic == "JMPF" || marked.Mnemonic == "JMPT") && rr.Info.Op == "unop:!" {
				// `if !c` folds the negation into the jump: the operand is c
			}
			want := make([]string, len(ops))
			for k, v := range ops {
				want[k] = v.Abbrev()
			}
			if strings.TrimRight(marked.Operands, " ") != strings.TrimRight(strings.Join(want, ", "), " ") { // the report parser drops trailing blanks (an empty string as last operand)
				return "report-operands:" + marked.Mnemonic, fmt.Sprintf("%s: the failing %s saw the values [%s], the report lists [%s]", where, marked.Mnemonic, strings.Join(want, ", "), marked.Operands), false
			}
			// backtrace: failing context first, then every context it was forked from
			if len(p.Contexts) != len(rr.Info.Stacks) {
				return "report-contexts", fmt.Sprintf("%s: the report lists %d memory contexts, the failure happened %d contexts deep; report:\n%s", where, len(p.Contexts), len(rr.Info.Stacks), clipStr(ir.Report, 900)), false
			}
			for c := range p.Contexts {
				got, wantF := p.Contexts[c], rr.Info.Stacks[c]
				if len(got) != len(wantF) {
					return "report-backtrace-length", fmt.Sprintf("%s: context %d lists %d calls, %d are active: got %v want %v", where, c, len(got), len(wantF), got, frameNames(wantF)), false
				}
				for f := range got {
					if got[f].Name != wantF[f].Name {
						return "report-backtrace-name", fmt.Sprintf("%s: context %d frame %d is reported as %s(), the active call was made as %s()", where, c, f, got[f].Name, wantF[f].Name), false
					}
					if len(got[f].Args) != len(wantF[f].Args) {
						return "report-backtrace-args", fmt.Sprintf("%s: context %d frame %d %s() lists %d arguments, it has %d", where, c, f, got[f].Name, len(got[f].Args), len(wantF[f].Args)), false
					}
					for a := range got[f].Args {
						if got[f].Args[a] != wantF[f].Args[a].Abbrev() {
							return "report-backtrace-values", fmt.Sprintf("%s: context %d frame %d %s() arg[%d] is reported as %q, its current value is %q", where, c, f, got[f].Name, a, got[f].Args[a], wantF[f].Args[a].Abbrev()), false
						}
					}
				}
			}
			failed++ // every failing statement of the session is judged (a later report must not show what an earlier failure left behind)
		}
	}
	return "", "", failed == 0
}

func frameNames(fs []refsem.FrameInfo) []string {
	r := []string{}
	for _, f := range fs {
		r = append(r, f.Name)
	}
	return r
}

// c19ReportCost: producing the report costs memory in proportion to what it shows, not to the square of an operand's
// size. An array of 2^k elements is the operand and the argument of a failing call; the bytes the host allocates
// while the failing statement runs (runtime.MemStats.TotalAlloc, no clock involved) must stay within a generous
// multiple of the array's rendered length.
func c19ReportCost(k int) (sig, detail string) {
	s := impl.NewSession()
	for _, src := range []string{"a = [1234567]", fmt.Sprintf("for i <- fromto(0, %d) a = a + a", k), "f = (arr, d) -> #arr / d"} {
		pr := impl.ParseCached(src)
		if pr.Err != "" || len(pr.Trees) != 1 {
			return "harness:report-cost", "generated statement does not parse: " + src
		}
		if r := s.RunTree(pr.Trees[0], 10000000); r.Panic != "" || r.FuelOut || r.Err != "" {
			return "harness:report-cost", "set-up statement failed: " + src + ": " + r.Err + r.Panic
		}
	}
	pr := impl.ParseCached("f(a, 0)")
	var before, after runtime.MemStats
	runtime.ReadMemStats(&before)
	ir := s.RunInput(pr.Trees[0], 1000000)
	runtime.ReadMemStats(&after)
	if ir.Panic != "" {
		return "report-panics", fmt.Sprintf("an array of 2^%d elements as operand: the report aborted: %s", k, ir.Panic)
	}
	if !strings.Contains(ir.Report, "division by zero") {
		return "report-missing", fmt.Sprintf("an array of 2^%d elements as operand of a failing division: no division-by-zero report; output %q", k, clipStr(ir.Report, 200))
	}
	n := 1 << k
	rendered := uint64(9*n + 2)
	spent := after.TotalAlloc - before.TotalAlloc
	if limit := 200*rendered + 16<<20; spent > limit {
		return "report-cost-grows-faster-than-the-value", fmt.Sprintf("a failing `#arr / d` whose operand and argument is an array of 2^%d elements (%d bytes when written out): producing the report allocated %d bytes (limit %d = 200 x the rendered length + 16 MB)", k, rendered, spent, limit)
	}
	return "", ""
}

func init() {
	core.Register(&core.Check{
		ID:    "C19",
		Level: "exploration",
		Rule: "failing programs = raising operation (every operator family with operands of every failing kind, in plain and temp-register form, increment form, index and slice, call of a non-function, arity mismatch, non-boolean and nil conditions plain and negated, nil assignment, aton, read) x operand values (short and longer than 20 characters, arrays, functions, strings with line breaks) x site (top level; call depth 1..4 through named functions with reassigned parameters; through a parameter holding a function; through a closure; in a for / while body; inside a generator, a nested generator, a generator inside functions (the Readme's example), a zip; inside built-ins), plus every failing member of the operand-source x statement-context product of C01. " +
			"Oracle: the captured report parses by the report grammar; its class is the reference model's; exactly one instruction is marked, it is the one the step hook saw last, its mnemonic belongs to the failing operation's family and the values after ';' are the operand values in source order, abbreviated to 20 characters; for the failing context and every context it was forked from the listed frames are the active calls, innermost first, with the names they were called by and the current values of their parameters; producing the report never panics, and for an operand that is an array of 2^8 / 2^11 / 2^14 elements the bytes the host allocates while the failing statement runs stay within 200 x the array's written length + 16 MB (runtime.MemStats.TotalAlloc; no clock). distinct = distinct program; non-trivial = programs that fail in both the implementation and the model",
		Assumptions: []string{"reference model refsem records the failing operation, its operand values and the active calls per coroutine", "context addresses are not compared"},
		Exec: func(payload string) (string, string) {
			impl.Init()
			if strings.HasPrefix(payload, `{"reportcost"`) {
				var rc struct{ Reportcost int }
				if err := json.Unmarshal([]byte(payload), &rc); err != nil {
					return "harness:bad-payload", err.Error()
				}
				return c19ReportCost(rc.Reportcost)
			}
			var it c19Item
			if err := json.Unmarshal([]byte(payload), &it); err != nil {
				return "harness:bad-payload", err.Error()
			}
			s, d, _ := c19Judge(it.Stmts)
			return s, d
		},
		Run: c19Run,
	})
}

type c19Fail struct {
	Src string // failing statement using the variable p (and q)
	P   string // value expression for p
}

func c19Failures() []c19Fail {
	long := "\"abcdefghijklmnopqrstuvwxyz\""
	arr := "[1, 2, 3, 4, 5, 6, 7, 8, 9, 10, 11, 12]"
	fs := []c19Fail{}
	add := func(p string, srcs ...string) {
		for _, s := range srcs {
			fs = append(fs, c19Fail{s, p})
		}
	}
	add("5", "p / 0", "p % 0", "p + \"a\"", "\"a\" - p", "p * [1]", "p < \"a\"", "p & true", "p << 1.5", "p == u", "p != u", "p[0]", "[1, 2][p]", "\"abc\"[1:p]", "p(1)", "!p", "#p", "-\"a\" + p", "if p 1", "if !p 1 else 2", "while p 1", "x = u", "aton(p)", "id(p, p)", "id()", "read()",
		"(p + 1) / 0", "(p + [1]) * 2", "!(p + 1)", "#(p * 2)", "~(p + 0.5)", "(p + 1) % (p - 5)", "p = p + \"x\"", "p = 1 + u", "x = p + 1 + u", "[1, p / 0]", "id(p / 0)", "(p - 1) < \"a\"", "[p][3]", "toa(p)[9]", "u + p", "p + u")
	// the increment forms compile to their own instruction, whose one operand is the variable
	for _, v := range []string{long, arr, "id", "true", "\"7\""} {
		add(v, "p = p + 1", "p = 1 + p")
	}
	add(long, "p / 2", "p + 1", "p[99]", "p[3:2]", "!p", "-p", "~p", "p(1)", "if p 1", "aton(p)", "p - p", "(p + \"!\") * 2", "p == u")
	add(arr, "p / 2", "p + 1", "p[99]", "p[3:2]", "!p", "p(1)", "if p 1", "aton(p)", "p < p", "(p + [0]) - 1", "p[0][0]")
	add("id", "p + 1", "p[0]", "#p", "p(1, 2)", "if p 1", "aton(p)", "p < 1")
	add("\"two\nlines\"", "p / 2", "p[9]", "aton(p)")
	add("\"15% off\"", "p / 2", "p[9]", "aton(p)", "p + 1")
	add("[\"%d\", \"%s%v\"]", "p / 2", "p[9]", "p + 1")
	add("1.5", "p % 2", "p & 1", "p << 1", "[1][p]", "~p")
	add("true", "p + 1", "-p", "#p", "p[0]", "p < false")
	return fs
}

type c19Site struct {
	Name string
	F    func(f c19Fail) []string
}

func c19Sites() []c19Site {
	pre := []string{
		"id = (x) -> x",
		"dbl = (x) -> x * 2",
		"map = (f, iter) -> for e <- iter() yield f(e)",
		"apf = (fn, v) -> fn(v, 0)",
	}
	withPre := func(s ...string) []string { return append(append([]string{}, pre...), s...) }
	return []c19Site{
		{"top", func(f c19Fail) []string { return withPre("p = "+f.P, "q = 0", f.Src) }},
		{"top-discarded", func(f c19Fail) []string { return withPre("p = "+f.P, "q = 0", "{\n  "+f.Src+"\n  7\n}") }},
		{"depth1", func(f c19Fail) []string { return withPre("fa = (p, q) -> "+f.Src, "fa("+f.P+", [1, \"s\"])") }},
		{"depth1-nontail", func(f c19Fail) []string {
			return withPre("fa = (p, q) -> {\n  "+f.Src+"\n  7\n}", "fa("+f.P+", 2)")
		}},
		{"depth2-reassigned", func(f c19Fail) []string {
			return withPre("fa = (p, q) -> "+f.Src, "fb = (a, p) -> {\n  a = \"changed by fb\"\n  fa(p, a)\n}", "fb(1, "+f.P+")")
		}},
		{"depth4", func(f c19Fail) []string {
			return withPre("fa = (p, q) -> "+f.Src, "fb = (p) -> fa(p, 2) + 1", "fc = (k, p) -> [fb(p)]", "fd = (p) -> {\n  t = fc(\"kk\", p)\n  t\n}", "fd("+f.P+")")
		}},
		{"through-parameter", func(f c19Fail) []string { return withPre("fa = (p, q) -> "+f.Src, "apf(fa, "+f.P+")") }},
		{"through-closure", func(f c19Fail) []string {
			return withPre("mk = (c) -> (p, q) -> {\n  t = c\n  "+f.Src+"\n}", "cl = mk(\"captured\")", "cl("+f.P+", 3)")
		}},
		{"for-body", func(f c19Fail) []string {
			return withPre("p = "+f.P, "q = 0", "for i <- fromto(0, 3) if i == 1 {\n  "+f.Src+"\n}")
		}},
		{"while-body-in-fn", func(f c19Fail) []string {
			return withPre("fa = (p, q) -> {\n  k = 0\n  while k < 3 {\n    k = k + 1\n    if k == 2 {\n      "+f.Src+"\n    }\n  }\n}", "fa("+f.P+", 1)")
		}},
		{"in-generator", func(f c19Fail) []string {
			return withPre("gen = (p, q) -> {\n  yield 1\n  "+f.Src+"\n  yield 2\n}", "for i <- gen("+f.P+", 8) i")
		}},
		{"generator-in-functions", func(f c19Fail) []string {
			return withPre("gen = (p, q) -> {\n  yield 1\n  "+f.Src+"\n  yield 2\n}", "g = (x) -> {\n  for i <- gen(x, 9) {\n    t = i\n  }\n}", "h = (z) -> g(z)", "h("+f.P+")")
		}},
		{"nested-generator", func(f c19Fail) []string {
			return withPre("pv = "+f.P, "gen = (p, q) -> {\n  yield 1\n  "+f.Src+"\n  yield 2\n}", "w = () -> for i <- map(dbl, () -> gen(pv, 1)) i", "w()")
		}},
		{"zip-second", func(f c19Fail) []string {
			return withPre("gen = (p, q) -> {\n  yield 1\n  "+f.Src+"\n  yield 2\n}", "for i, j <- fromto(0, 5), gen("+f.P+", 2) i")
		}},
		{"recycled-toplevel-generator-fails-before-first-yield", func(f c19Fail) []string {
			// the inner loop's context is recycled from the second outer iteration on; there the generator fails at once
			return withPre("pv = "+f.P, "gen = (p, q) -> {\n  if q == 1 {\n    "+f.Src+"\n  }\n  yield 1\n  yield 2\n}", "for a <- fromto(0, 3) for b <- gen(pv, a) t = b")
		}},
		{"recycled-generator-in-function-fails-before-first-yield", func(f c19Fail) []string {
			return withPre("gen = (p, q) -> {\n  if q == 2 {\n    "+f.Src+"\n  }\n  yield 1\n}", "fa = (z) -> {\n  for a <- fromto(0, 3) for b <- gen(z, a) t = b\n}", "fa("+f.P+")")
		}},
		{"second-loop-same-statement-fails-at-once", func(f c19Fail) []string {
			return withPre("pv = "+f.P, "gen = (p, q) -> {\n  if q == 1 {\n    "+f.Src+"\n  }\n  yield 1\n}", "{\n  for b <- gen(pv, 0) t = b\n  for b <- gen(pv, 1) t = b\n}")
		}},
		{"after-a-refused-oversized-statement", func(f c19Fail) []string {
			// a statement too large for the instruction format is refused between the definitions and the failing call
			big := make([]string, 33000)
			for i := range big {
				big[i] = "hv"
			}
			// (non-constant elements: a list of constants is one constant; the index error makes it fail in the model too, without effect)
			return withPre("hv = 1", "fa = (p, q) -> "+f.Src, "fb = (p) -> fa(p, 2) + 1", "huge = ["+strings.Join(big, ", ")+"][40000]", "fb("+f.P+")")
		}},
		{"generator-loop-after-a-zip-in-the-same-statement", func(f c19Fail) []string {
			return withPre("pv = "+f.P, "gen = (p, q) -> {\n  yield 1\n  "+f.Src+"\n  yield 2\n}", "{\n  for a, b <- fromto(0, 2), fromto(0, 3) t = a + b\n  for i <- gen(pv, 1) t = i\n}")
		}},
		{"after-an-earlier-failure-inside-a-generator-forked-in-a-call", func(f c19Fail) []string {
			// the first failing statement dies in a generator that a function's loop forked; the second is the judged one
			return withPre("halves = (n) -> {\n  while n > 1 {\n    n = n / 2\n    yield n\n  }\n}",
				"total = (start, bonus) -> {\n  s = bonus\n  for h <- halves(start) s = s + h\n  s\n}",
				"total(\"sixteen\", 1)", "total(8, 0)",
				"fa = (p, q) -> "+f.Src, "fb = (p) -> fa(p, 2) + 1", "fb("+f.P+")")
		}},
		{"after-an-earlier-failure-in-nested-calls", func(f c19Fail) []string {
			return withPre("da = (x) -> 1 / x", "db = (x) -> da(x) + 1", "dc = (x, y) -> db(x) + y", "dc(0, \"stale\")",
				"fa = (p, q) -> "+f.Src, "fa("+f.P+", 2)")
		}},
		{"body-of-loop-over-generator", func(f c19Fail) []string {
			return withPre("lit = () -> {\n  yield 1\n  yield 2\n}", "fa = (p, q) -> for i <- lit() if i == 2 {\n  "+f.Src+"\n}", "fa("+f.P+", 4)")
		}},
	}
}

func c19Run(w *core.W) {
	impl.Init()
	emit := func(stmts []string) bool {
		if !w.Mine(keyOf(stmts)) {
			return true
		}
		sig, detail, skipped := c19Judge(stmts)
		if skipped {
			w.Count("skipped_not_failing_or_undefined", 1)
		} else {
			w.NonTrivial()
		}
		if sig != "" {
			b, _ := json.Marshal(c19Item{stmts})
			w.Fail(string(b), sig, detail)
		}
		return !w.Expired("time budget reached")
	}
	w.Family("failure x site")
	for _, f := range c19Failures() {
		for _, s := range c19Sites() {
			if !emit(s.F(f)) {
				return
			}
		}
	}
	// every failing member of C01's operand-source x statement-context product (reports from every code-generation context)
	w.Family("operand x statement context (failing members)")
	binops := []string{"+", "/"}
	if w.Thorough() {
		binops = []string{"+", "-", "/", "%", "<", "==", "&&", "<<"}
	}
	for _, sc := range stmtContexts() {
		scope := scTop
		if sc.Func {
			scope = scFunc
		}
		ok := true
		forms(operands(scope, w.Thorough()), binops, func(name string, st gen.T) {
			if ok {
				ok = emit(session(append([]gen.T{secondDef()}, sc.F(st)...)))
			}
		})
		if !ok {
			return
		}
	}
	// how operand and parameter values are shown: values whose text is just below, at and just above the 20 characters
	// a report shows, of every kind (strings, arrays of 0..12 short elements incl. empty strings and nested arrays,
	// ints, floats, functions), as the operand of a failing operation and as the argument of the failing call
	w.Family("value rendering")
	{
		vals := []string{"\"\"", "[]", "[[]]", "[\"\"]", "id", "1.5", "123456789012345678", "0 - 1234567890123456789", "1234567890.12345", "aton(\"NaN\")", "true"}
		for n := 15; n <= 24; n++ {
			vals = append(vals, "\""+strings.Repeat("s", n)+"\"")
		}
		// text whose byte length and character count differ (the report cuts at 20 bytes)
		for n := 6; n <= 12; n++ {
			vals = append(vals, "\""+strings.Repeat("é", n)+"\"", "\""+strings.Repeat("語", n)+"\"", "\"ab"+strings.Repeat("é", n)+"!\"")
		}
		for n := 1; n <= 12; n++ {
			for _, el := range []string{"\"\"", "\"a\"", "1", "[]", "[1]", "12", "1.5"} {
				vals = append(vals, "["+strings.TrimSuffix(strings.Repeat(el+", ", n), ", ")+"]")
			}
			vals = append(vals, "[\"\", "+strings.TrimSuffix(strings.Repeat("\"a\", ", n), ", ")+"]")
		}
		for _, v := range vals {
			for _, fail := range []string{"p - true", "true - p", "[1][p]", "(0 + 1) * 1 - p", "p - (0 + true)", "p()"} {
				if fail == "p()" && v == "id" {
					continue
				}
				if !emit([]string{"id = (x) -> x", "f = (p, q) -> " + fail, "f(" + v + ", " + v + ")"}) ||
					!emit([]string{"id = (x) -> x", "p = " + v, fail}) {
					return
				}
			}
		}
	}
	w.Family("report cost")
	for _, k := range []int{8, 11, 14} {
		b, _ := json.Marshal(map[string]int{"reportcost": k})
		if !w.Mine(string(b)) {
			continue
		}
		w.NonTrivial()
		if sig, detail := c19ReportCost(k); sig != "" {
			w.Fail(string(b), sig, detail)
		}
	}
	w.Family("inside built-ins")
	for _, s := range [][]string{
		{"for i <- fromto(\"a\", 3) i"}, {"for i <- fromto(1, [2]) i"}, {"for i <- elems(5) i"}, {"for i <- indices(true) i"}, {"fromto(1.5, \"x\")"},
		{"f = (a) -> for i <- fromto(a, 3) i", "f(\"abcdefghijklmnopqrstuvwxyz\")"},
		{"f = (a) -> {\n  r = 0\n  for i <- elems(a) r = r + i\n  r\n}", "f([1, 2, \"three\", 4])"},
		{"toa(1, 2)"}, {"write()"}, {"aton(5)"}, {"f = (a, b) -> aton(a + b)", "f(\"1\", \"x\")"},
	} {
		if !emit(s) {
			return
		}
	}
}
