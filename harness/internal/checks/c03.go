package checks

import (
	"encoding/json"

	"fmt"
	"strings"

	"vharness/internal/ast"
	"vharness/internal/core"
	"vharness/internal/gen"
	"vharness/internal/impl"
	"vharness/internal/sess"
)

// C03: functions are pure — same arguments, same result, whatever happened before.

type c03Fun struct {
	Name string
	Defs []string // definitions (the function under test is called `f`)
	Args []string // argument lists to call it with
}

func wideFun(w int) string {
	var b strings.Builder
	b.WriteString("f = (a) -> {\n")
	prev := "a"
	for i := 0; i < w; i++ {
		v := letters(i)
		fmt.Fprintf(&b, "  %s = %s\n", v, prev)
		prev = v
	}
	// the iterator expression (evaluated in the forked generator context) and the body both read the last local
	fmt.Fprintf(&b, "  r = 0\n  for i <- fromto(0, %s - 5) r = %s + i\n  r\n}", prev, prev)
	return b.String()
}

func c03Funs(thorough bool) []c03Fun {
	fs := []c03Fun{
		{"arith", []string{"f = (a) -> a * 2 + 1"}, []string{"3", "1.5"}},
		{"closure-call", []string{"f = (a) -> {\n  g = () -> a * 2\n  g()\n}"}, []string{"3"}},
		{"closure-returned", []string{"mk = (a) -> () -> a + 1", "f = (a) -> {\n  k = mk(a)\n  k()\n}"}, []string{"3"}},
		{"captured-updated-after-deep-call", []string{"f = (a) -> {\n  x = a\n  g = () -> x\n  t = deep(200)\n  x = x + 1\n  g()\n}"}, []string{"3"}},
		{"captured-updated-in-loop", []string{"f = (a) -> {\n  x = a\n  g = () -> x\n  for i <- fromto(0, 3) x = x + g()\n  x\n}"}, []string{"1"}},
		{"loop", []string{"f = (a) -> {\n  s = 0\n  for i <- fromto(0, a) s = s + i\n  s\n}"}, []string{"5", "0"}},
		{"nested-loops", []string{"f = (a) -> {\n  s = []\n  for i <- fromto(0, a) for j <- elems(\"ab\") s = s + [toa(i) + j]\n  s\n}"}, []string{"2"}},
		{"closure-in-array", []string{"f = (a) -> {\n  x = a\n  p = [() -> x, 0]\n  q = p[0]\n  q()\n}"}, []string{"3"}},
		{"generator-composition", []string{"f = (a) -> {\n  r = []\n  for i <- map(dbl, () -> fromto(0, a)) r = r + [i]\n  r\n}"}, []string{"3"}},
		{"recursion", []string{"f = (n) -> if n < 2 n else f(n - 1) + f(n - 2)"}, []string{"10"}},
		{"escaped-via-array", []string{"mkb = (a) -> [() -> a]", "f = (a) -> {\n  p = mkb(a)\n  t = deep(50)\n  q = p[0]\n  q()\n}"}, []string{"3"}},
		{"pass-through", []string{"f = (a) -> {\n  x = a\n  g = () -> x\n  k = id(g)\n  x = x + 1\n  k()\n}"}, []string{"3"}},
		{"own-generator", []string{"f = (a) -> {\n  g = () -> {\n    yield a\n    yield a + 1\n  }\n  r = []\n  for v <- g() r = r + [v + deep(3)]\n  r\n}"}, []string{"3"}},
		{"early-return-from-loop", []string{"f = (a) -> {\n  for i <- fromto(0, 10) for j <- fromto(0, 10) if i * j == a return [i, j]\n  0\n}"}, []string{"6"}},
		{"strings-arrays", []string{"f = (a) -> {\n  s = a + \"x\"\n  t = [s, s[0:1]] + [#s]\n  t\n}"}, []string{"\"ab\""}},
		{"uninitialised-local", []string{"f = (x) -> {\n  if x < 0 sign = \"neg\"\n  if x > 0 sign = \"pos\"\n  sq = x * x\n  [sign, sq]\n}"}, []string{"0", "3"}},
		{"uninitialised-locals-three", []string{"f = (x) -> {\n  if x < 0 {\n    sa = 1\n    sb = 2\n  }\n  sc = x + 1\n  [sa, sb, sc]\n}"}, []string{"0"}},
		{"closure-from-iterator-expression", []string{"f = (a) -> {\n  g = id\n  for h <- elems([(x) -> x + a]) g = h\n  before = g(1)\n  s = 0\n  for i <- fromto(0, 100) s = s + i\n  [before, g(1), s]\n}"}, []string{"3"}},
		{"closure-from-iterator-expression-then-loop-elsewhere", []string{"f = (a) -> {\n  g = id\n  for h <- elems([(x) -> x + a]) g = h\n  before = g(1)\n  t = lsum(100)\n  [before, g(1), t]\n}"}, []string{"3"}},
		{"closure-from-generator-then-loop-elsewhere", []string{"f = (a) -> {\n  gen = () -> {\n    k = a * 2\n    yield () -> k + a\n  }\n  g = id\n  for h <- gen() g = h\n  before = g()\n  t = lsum(50)\n  for h <- gen() if t > 0 return [before, g(), h()]\n}"}, []string{"3"}},
		{"closure-yielded-by-own-generator", []string{"f = (a) -> {\n  gen = () -> {\n    k = a * 2\n    yield () -> k + a\n  }\n  g = id\n  for h <- gen() g = h\n  before = g()\n  for i <- fromto(0, 50) t = [i, i]\n  [before, g()]\n}"}, []string{"3"}},
		{"closure-from-abandoned-nested-generators", []string{
			"mkg = () -> {\n  k = 7\n  yield () -> k\n  k = 8\n  yield () -> k\n}",
			"relay = () -> for c <- mkg() yield c",
			"firstc = () -> for c <- relay() return c",
			"f = (a) -> {\n  g = firstc()\n  before = g()\n  s = 0\n  for x, y <- fromto(100, 100 + a), fromto(200, 203) s = s + x + y\n  [before, g(), s]\n}"}, []string{"3"}},
		{"closure-from-abandoned-generator-then-zip", []string{
			"mkg = () -> {\n  k = 7\n  yield () -> k\n  k = 8\n  yield () -> k\n}",
			"firstd = () -> for c <- mkg() return c",
			"f = (a) -> {\n  g = firstd()\n  before = g()\n  s = 0\n  for x, y <- fromto(0, a), elems(\"abc\") s = s + x\n  for x <- map(dbl, () -> fromto(0, a)) s = s + x\n  [before, g(), s]\n}"}, []string{"3"}},
		{"closure-from-abandoned-generator-yielding-through-a-helper", []string{
			"each = (c) -> {\n  yield c\n  yield c\n}",
			"geh = () -> {\n  lo = 1\n  hi = 2\n  secret = 42\n  c = () -> secret + lo + hi\n  each(c)\n}",
			"firsth = () -> for x <- geh() return x",
			"f = (a) -> {\n  g = firsth()\n  before = g()\n  s = 0\n  for i <- fromto(100, 100 + a) s = s + i\n  for x, y <- fromto(0, a), elems(\"abc\") s = s + x\n  [before, g(), s]\n}"}, []string{"3"}},
		{"closure-from-abandoned-generator-two-helpers-deep", []string{
			"each = (c) -> {\n  yield c\n  yield c\n}",
			"via = (c) -> {\n  pad = 5\n  each(c)\n}",
			"gev = () -> {\n  secret = 42\n  c = () -> secret\n  via(c)\n}",
			"firstv = () -> for x <- gev() return x",
			"f = (a) -> {\n  g = firstv()\n  before = g()\n  s = 0\n  for i <- fromto(100, 100 + a) for j <- fromto(0, 2) s = s + i + j\n  [before, g(), s]\n}"}, []string{"3"}},
		{"zip-of-composed-generators", []string{"f = (a) -> {\n  s = 0\n  for x, y <- evens(a), evens(a + 2) s = s * 100 + x * 10 + y\n  s\n}"}, []string{"6"}},
		{"closure-built-before-update-after-deep-call", []string{"f = (a) -> {\n  bias = 0\n  g = (v) -> v * a + bias\n  bias = deeplb(50)\n  h = g\n  h(2)\n}"}, []string{"3"}},
		{"errors-inside", []string{"f = (a) -> {\n  r = 0\n  for i <- fromto(0, 3) r = r + a / (i + 1)\n  r\n}"}, []string{"12"}},
	}
	// a captured variable updated after the stack grew inside frames with 1..4 locals of their own (the growth then
	// happens while the callee's locals are laid out, not while an operand is pushed)
	for k := 1; k <= 4; k++ {
		fs = append(fs, c03Fun{fmt.Sprintf("captured-updated-after-deep-call-with-%d-locals", k),
			[]string{fmt.Sprintf("f = (a) -> {\n  x = a\n  g = () -> x\n  t = deepl%c(60)\n  x = x + 1\n  g()\n}", 'a'+k-1)}, []string{"3"}})
	}
	// every expression body of at most 2 (quick) / 3 (thorough) nodes over the parameter and small constants
	g := &gen.Grammar{Leaves: []gen.T{gen.N("a"), gen.I(1), gen.S("s"), gen.L(gen.I(1), gen.I(2))}, BinOps: []string{"+", "*", "<", "=="}, UnOps: []string{"-", "#"}, Calls: []string{"id", "deep"}, Index: true, Lists: true, Funcs: true}
	maxN := 2
	if thorough {
		maxN = 3
	}
	for n := 2; n <= maxN; n++ {
		for _, e := range g.Exprs(n) {
			fs = append(fs, c03Fun{"body:" + ast.Expr(e, ast.Plain), []string{"ap = (h) -> h(2)", "f = (a) -> " + ast.Expr(e, ast.Plain)}, []string{"3"}})
		}
	}
	widths := []int{1, 100, 126, 127, 128, 129, 200, 300}
	if !thorough {
		widths = []int{1, 126, 127, 128, 129, 200}
	}
	for _, w := range widths {
		fs = append(fs, c03Fun{fmt.Sprintf("wide-%d", w), []string{wideFun(w)}, []string{"7"}})
	}
	return fs
}

func c03Prelude() []string {
	return []string{
		"id = (x) -> x",
		"dbl = (x) -> x * 2",
		"deep = (n) -> if n <= 0 0 else 1 + deep(n - 1)",
		"map = (f, iter) -> for e <- iter() yield f(e)",
		"ab = () -> for x <- fromto(0, 5) if x > 1 return x",
		"atd = (d, h, v) -> if d <= 0 h(v) else atd(d - 1, h, v)",
		"lsum = (k) -> {\n  s = 0\n  for i <- fromto(0, k) s = s + i\n  s\n}",
		"deepla = (n) -> {\n  la = n\n  if n <= 0 0 else 1 + deepla(n - 1)\n}",
		"deeplb = (n) -> {\n  la = n\n  lb = la\n  if n <= 0 0 else 1 + deeplb(n - 1)\n}",
		"deeplc = (n) -> {\n  la = n\n  lb = la\n  lc = lb\n  if n <= 0 0 else 1 + deeplc(n - 1)\n}",
		"deepld = (n) -> {\n  la = n\n  lb = la\n  lc = lb\n  ld = lc\n  if n <= 0 0 else 1 + deepld(n - 1)\n}",
		"evens = (m) -> for n <- fromto(0, m) if n % 2 == 0 yield n",
		"dirty = (k) -> {\n  da = \"stale-a\"\n  db = [k, k]\n  dc = k * 11\n  dd = dc + 1\n  yield deepla(k) + dd\n  yield dc\n}",
		"firstabove = (xs, lim) -> {\n  for x <- elems(xs) if x > lim return x\n  0\n}",
		"picks = (rows) -> for r <- elems(rows) yield firstabove(r, 2)",
	}
}

type c03Ctx struct {
	Name   string
	Stmts  func(call string) []string // statements; the value of the last one is the observation
	Expect func(v string) string      // observation expected from the value v of one call
}

func c03Contexts(args string) []c03Ctx {
	same := func(v string) string { return v }
	pair := func(v string) string { return "a:[" + v + "," + v + "]" }
	cs := []c03Ctx{
		{"top", func(c string) []string { return []string{c} }, same},
		{"twice-in-array", func(c string) []string { return []string{"[" + c + ", " + c + "]"} }, pair},
		{"argument", func(c string) []string { return []string{"id(" + c + ")"} }, same},
		{"loop-body", func(c string) []string {
			return []string{"{\n  r = []\n  for q <- fromto(0, 2) r = r + [" + c + "]\n  r\n}"}
		}, pair},
		{"while-body", func(c string) []string {
			return []string{"{\n  r = []\n  while #r < 2 r = r + [" + c + "]\n  r\n}"}
		}, pair},
		{"in-generator", func(c string) []string {
			return []string{"gg = () -> {\n  yield " + c + "\n  yield " + c + "\n}", "{\n  r = []\n  for v <- gg() r = r + [v]\n  r\n}"}
		}, pair},
		{"in-generator-after-a-loop-over-a-generator-with-variables-same-statement", func(c string) []string {
			return []string{"gg = () -> {\n  yield " + c + "\n  yield " + c + "\n}", "{\n  for q <- dirty(7) t = q\n  r = []\n  for v <- gg() r = r + [v]\n  r\n}"}
		}, pair},
		{"in-generator-after-two-such-loops-same-statement", func(c string) []string {
			return []string{"gg = () -> {\n  yield " + c + "\n}", "{\n  for q <- dirty(3) t = q\n  for q, p <- dirty(5), dirty(6) t = q + p\n  r = []\n  for v <- gg() r = r + [v]\n  for v <- gg() r = r + [v]\n  r\n}"}
		}, pair},
		{"in-function", func(c string) []string { return []string{"wrap = () -> " + c, "wrap()"} }, same},
		{"after-loop-same-statement", func(c string) []string {
			return []string{"{\n  for q <- fromto(0, 2) t = q\n  " + c + "\n}"}
		}, same},
		{"after-abandoned-loop-same-statement", func(c string) []string {
			return []string{"{\n  t = ab()\n  for q <- fromto(0, 3) if q == 1 return " + c + "\n}"}
		}, same},
		{"after-generator-whose-callee-left-its-loop-early-same-statement", func(c string) []string {
			return []string{"{\n  t = 0\n  for p <- picks([[1, 2], [1, 5, 9]]) t = t + p\n  " + c + "\n}"}
		}, same},
		{"after-two-loops-same-statement", func(c string) []string {
			return []string{"{\n  for q <- fromto(0, 2) for p <- fromto(0, 2) t = q\n  for q <- elems([1]) t = q\n  " + c + "\n}"}
		}, same},
	}
	// the same call under every number of enclosing frames 0..399, with three frame sizes (every stack alignment)
	for _, sw := range []struct{ name, def, call string }{
		{"sweep-depth-3slot", "sw = (d, h, v) -> if d <= 0 h(v) else sw(d - 1, h, v)", "sw(d, f, " + args + ")"},
		{"sweep-depth-2slot", "sw = (d, v) -> if d <= 0 f(v) else sw(d - 1, v)", "sw(d, " + args + ")"},
		{"sweep-depth-1slot", "sw = (d) -> if d <= 0 f(" + args + ") else sw(d - 1)", "sw(d)"},
	} {
		sw := sw
		cs = append(cs, c03Ctx{sw.name, func(c string) []string {
			return []string{sw.def, "{\n  ref = toa(" + c + ")\n  bad = []\n  d = 0\n  while d < 400 {\n    if toa(" + sw.call + ") != ref bad = bad + [d]\n    d = d + 1\n  }\n  [ref == toa(" + c + "), bad]\n}"}
		}, func(v string) string { return "a:[b:true,a:[]]" }})
	}
	for _, d := range []int{1, 2, 5, 50, 200} {
		d := d
		cs = append(cs, c03Ctx{fmt.Sprintf("at-depth-%d", d), func(c string) []string {
			return []string{fmt.Sprintf("atd(%d, f, %s)", d, args)}
		}, same})
	}
	return cs
}

func c03Histories() [][2]string {
	return [][2]string{
		{"none", ""},
		{"deep-recursion", "deep(700)"},
		{"small-loop", "for q <- fromto(0, 3) t = q"},
		{"nested-loops", "for q <- fromto(0, 3) for p <- elems(\"ab\") t = p"},
		{"abandoned-loop", "ab()"},
		{"runtime-error", "1 / 0"},
		{"runtime-error-inside-nested-call", "atd(4, dbl, [1])"},
		{"parse-error", "1 + )"},
		{"large-array", "{\n  big = []\n  for q <- fromto(0, 300) big = big + [q]\n  #big\n}"},
		{"closure-churn", "{\n  cs = []\n  for q <- fromto(0, 50) cs = cs + [() -> q]\n  #cs\n}"},
		{"error-in-generator", "for q <- map(dbl, () -> elems([1, \"x\", 2])) t = q + 1"},
	}
}

type c03Item struct {
	Fun  int   `json:"fun"`
	Arg  int   `json:"arg"`
	Ctx  int   `json:"ctx"`
	Hist []int `json:"hist"`
	Thor bool  `json:"thorough"`
}

var c03Baseline = map[string]string{}

// c03Judge: the call placed in a context after a history must give the value
// the same call gives at top level of a fresh session (which must be the reference's).
func c03Judge(it c03Item) (sig, detail string) {
	f := c03Funs(it.Thor)[it.Fun]
	args := f.Args[it.Arg]
	if strings.Contains(f.Defs[len(f.Defs)-1], "f = (n)") || !strings.Contains(args, ",") {
		// single argument functions only (atd passes one value)
	}
	call := "f(" + args + ")"
	base := append(append([]string{}, c03Prelude()...), f.Defs...)
	bkey := fmt.Sprint(it.Thor, it.Fun, it.Arg)
	v0, ok := c03Baseline[bkey]
	if !ok {
		// KeepGoing: a function outside the described domain (say, one reading a conditionally assigned local) is
		// not judged against the reference, but it is still executed and is still a candidate for the differential oracle
		o := sess.Compare(append(append([]string{}, base...), call), sess.Options{RefFuel: 2000000, KeepGoing: true})
		if len(o.ImplObs) != len(base)+1 {
			return "", "" // the session did not reach the call (crash or fuel): C05's subject
		}
		if o.Sig != "" {
			return "baseline:" + o.Sig, fmt.Sprintf("function %s called at top level of a fresh session: %s", f.Name, o.Detail)
		}
		v0 = o.ImplObs[len(o.ImplObs)-1]
		c03Baseline[bkey] = v0
	}
	vOnly := v0
	if i := strings.LastIndex(v0, " | "); i >= 0 {
		vOnly = v0[:i]
	}
	if strings.HasPrefix(v0, "ERR") || strings.HasPrefix(v0, "PANIC") || strings.HasPrefix(v0, "fn ") || strings.Contains(v0, "fn") || strings.HasPrefix(v0, "nil |") {
		// the call itself fails, returns a function (never equal to anything) or returns no value at all (nil, which the
		// contexts cannot store or compare; an array with an empty element is fine): not a candidate
		return "", ""
	}
	ctx := c03Contexts(args)[it.Ctx]
	stmts := append([]string{}, base...)
	hs := c03Histories()
	hnames := []string{}
	for _, h := range it.Hist {
		if hs[h][1] != "" {
			stmts = append(stmts, hs[h][1])
		}
		hnames = append(hnames, hs[h][0])
	}
	stmts = append(stmts, ctx.Stmts(call)...)
	o := runImplStmts(stmts, 3000000)
	want := ctx.Expect(vOnly)
	if strings.HasPrefix(o, "HARNESS") {
		return "harness:generated-program-does-not-parse", o
	}
	if o != want {
		return "impure:" + f.Name, fmt.Sprintf("function %s with argument %s: at top level of a fresh session the call gives %s; in context %s after history %v the observation is %s where %s is expected", f.Name, args, vOnly, ctx.Name, hnames, o, want)
	}
	return "", ""
}

// runImplStmts runs statements on a fresh VM, ignoring failures of history statements; returns the last observation.
func runImplStmts(stmts []string, fuel int) string {
	s := impl.NewSession()
	last := ""
	for _, src := range stmts {
		pr := impl.ParseCached(src)
		if pr.Err != "" || pr.Panic != "" || pr.FuelOut != "" {
			if src != "1 + )" {
				return "HARNESS generated statement does not parse: " + src + ": " + pr.Err + pr.Panic + pr.FuelOut
			}
			last = "PARSE-ERROR"
			continue
		}
		for _, t := range pr.Trees {
			if s.Dead {
				return "DEAD " + last
			}
			r := s.RunTree(t, fuel)
			switch {
			case r.Panic != "":
				last = "PANIC " + r.Panic + " @" + r.PanicSite
			case r.FuelOut:
				last = "FUEL"
			case r.Err != "":
				last = "ERR " + r.Err
			default:
				last = r.Canon
			}
		}
	}
	return last
}

func init() {
	core.Register(&core.Check{
		ID:    "C03",
		Level: "exploration",
		Rule: "side-effect-free functions (arithmetic, closures created / called / returned / returned in arrays / passed through, captured variables updated after deep calls and in loops, loops, nested loops, generator compositions, own generators, recursion, early return from nested loops, string/array building, frames of 1/100/126/127/128/129/200/300 locals read inside a loop) x argument x call context (top-level statement; twice in one array literal; call argument; for / while body iterations 1 and 2; inside a generator; inside a function; after one loop, two loops, an abandoned loop in the same statement; at call depth 1/2/5/50/200) x preceding history (all sequences of length <= 2 (quick) / 3 (thorough) of: deep recursion, small loop, nested loops, abandoned loop, runtime error, parse error, large array, closure churn, error inside a generator). " +
			"Oracle: the observation equals what the same call gives as the only statement of a fresh session, which in turn equals the reference model's value (differential on the real VM, anchored once per function in the model). distinct = distinct (function, argument, context, history); non-trivial = all of them (every item calls the function in a non-initial machine state except context top with empty history)",
		Assumptions: []string{"the baseline of each function is checked against the reference model refsem; all other comparisons are between runs of the real VM"},
		Exec: func(payload string) (string, string) {
			impl.Init()
			var it c03Item
			if err := json.Unmarshal([]byte(payload), &it); err != nil {
				return "harness:bad-payload", err.Error()
			}
			return c03Judge(it)
		},
		Run: c03Run,
	})
}

func c03Run(w *core.W) {
	impl.Init()
	funs := c03Funs(w.Thorough())
	nh := len(c03Histories())
	hists := [][]int{{}}
	for a := 1; a < nh; a++ {
		hists = append(hists, []int{a})
	}
	for a := 1; a < nh; a++ {
		for b := 1; b < nh; b++ {
			hists = append(hists, []int{a, b})
		}
	}
	if w.Thorough() {
		for a := 1; a < nh; a++ {
			for b := 1; b < nh; b++ {
				for c := 1; c < nh; c++ {
					hists = append(hists, []int{a, b, c})
				}
			}
		}
	}
	w.Family("function x context x history")
	for fi, f := range funs {
		for ai := range f.Args {
			for ci := range c03Contexts(f.Args[ai]) {
				for _, h := range hists {
					it := c03Item{fi, ai, ci, h, w.Thorough()}
					b, _ := json.Marshal(it)
					if !w.Mine(string(b)) {
						continue
					}
					w.NonTrivial()
					if sig, detail := c03Judge(it); sig != "" {
						w.Fail(string(b), sig, detail)
					}
					if w.Expired("time budget reached") {
						return
					}
				}
			}
		}
	}
}
