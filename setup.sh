#!/bin/sh
# Builds the harness once against /repo (warms the Go build cache) and lists the checks.
export GOFLAGS=-mod=mod GOPROXY=off GOSUMDB=off GOTOOLCHAIN=local
VERIF_DIR=$(cd "$(dirname "$0")" && pwd)
export VERIF_DIR
cd "$VERIF_DIR/harness" || exit 2
cp /repo/go.sum go.sum || exit 2
mkdir -p "$VERIF_DIR/evidence" "$VERIF_DIR/replays"
BIN=$(mktemp -d /tmp/vcheck-setup.XXXXXX) || exit 2
trap 'rm -rf "$BIN"' EXIT INT TERM
go build -tags verif -o "$BIN/vcheck" ./cmd/vcheck || exit 2
(cd /repo && go build -o "$BIN/calc" ./cmd/calc) || exit 2
"$BIN/vcheck" list
