#!/bin/sh
# usage: runall.sh quick|thorough [IDs...]   — runs registered checks one after another and prints a summary line each
tier=${1:-quick}; shift
ids="$@"
[ -z "$ids" ] && ids=$(python3 -c "import json;print(' '.join(c['property_id'] for c in json.load(open('/verif/MANIFEST.json'))['checks']))")
for id in $ids; do
  out=$(/verif/run.sh $id $tier 2>&1); rc=$?
  echo "$id rc=$rc $(echo "$out" | grep -E "^$id $tier:" | tail -1)"
  echo "$out" | grep -E "^(VIOLATION|KNOWN-FINDING|HARNESS ERROR)" | head -5
done
