#!/bin/sh
# usage: seedverify_gorun.sh <out-dir> <n>
# Confirms a seeded change whose demonstration is a stand-alone Go program (demo<n>.go, package main, run with `go run`
# from the checkout): exit status / output without and with the change, build, vet, repo tests with the change.
out=$1; n=$2
export GOFLAGS=-mod=mod GOPROXY=off GOSUMDB=off GOTOOLCHAIN=local
wt=/tmp/seedv/$(basename $out)-run$n
rm -rf $wt; mkdir -p /tmp/seedv
git -C /repo worktree add -q --detach $wt HEAD || exit 2
trap 'git -C /repo worktree remove --force $wt 2>/dev/null; rm -rf $wt' EXIT INT TERM
(cd $wt && timeout 300 go run $out/demo$n.go > /tmp/seedv/run.$$.o1 2>&1); r1=$?
git -C $wt apply $out/patch$n.diff || { echo "PATCH DOES NOT APPLY"; exit 3; }
echo "files: $(git -C $wt diff --stat | tail -1)"
(cd $wt && go build ./... && go vet ./... ) >/dev/null 2>&1 && echo "build+vet: ok" || echo "build+vet: FAIL"
(cd $wt && go build -tags verif ./... ) >/dev/null 2>&1 && echo "build -tags verif: ok" || echo "build -tags verif: FAIL"
t=$(cd $wt && go test -count=1 ./... 2>&1 | grep -c "^FAIL\|^---"); echo "repo tests failing lines: $t"
(cd $wt && timeout 300 go run $out/demo$n.go > /tmp/seedv/run.$$.o2 2>&1); r2=$?
if [ $r1 = 0 ] && [ $r2 != 0 ]; then echo "DEMO-DIFFERS: yes (exit $r1 without, $r2 with)"; else echo "DEMO-DIFFERS: no (exit $r1 without, $r2 with)"; fi
echo "--- WITHOUT:"; tail -3 /tmp/seedv/run.$$.o1; echo "--- WITH:"; tail -4 /tmp/seedv/run.$$.o2
rm -f /tmp/seedv/run.$$.*
